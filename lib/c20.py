"""C20 - the bounded cache never drops an entry without its cleanup.
Theorems: coq/Props_C20.v over coq/Cache.v (events at the granularity of the cache's own critical sections).
Tie: in-package driver on the real cache.Cache with scripted cleanup callbacks (succeed / fail / Set landing inside
Delete's unlocked cleanup window) and the synchronous prune hooks; every event's callback log and the key set
afterwards are compared with the extracted model; the direct oracle evaluates the clauses on the implementation's log."""
import itertools
import json
import os
import subprocess

from common import *

LEVEL = "proof"
KEYS = ["k0", "k1", "k2", "k3", "k4"]
MIN = 60000        # one minute in ms


def gen_case(rng, cid, nev):
    minage = rng.choice([0, 3600000, 3600000, 600000])
    count = rng.choice([0, 0, 1, 2, 3, 4, 10])
    hasfn = rng.random() < 0.8
    evs = []
    ages = list(range(1, 400))
    rng.shuffle(ages)
    v = 0
    for i in range(nev):
        r = rng.random()
        k = rng.choice(KEYS)
        age = ages[i % len(ages)] * MIN // 4 + i       # distinct ages, far from the expiry boundary of either setting
        if abs(age - minage) < 2 * MIN:
            age += 5 * MIN
        fails = [rng.choice([x for x in KEYS if x != k])] if rng.random() < 0.25 else []
        if r < 0.4:
            v += 1
            # a Set stamps the entry with the current time (the count prune it may start runs concurrently, so its last-use
            # time is not scripted); a scripted age is given by a following Get
            evs.append(dict(op="set", k=k, v=v, age_ms=0, fails=fails))
            if rng.random() < 0.7:
                evs.append(dict(op="get", k=k, age_ms=age))
        elif r < 0.55:
            evs.append(dict(op="get", k=k, age_ms=age))
        elif r < 0.68:
            evs.append(dict(op="delete", k=k, ok=rng.random() < 0.75))
        elif r < 0.76:
            v += 1
            evs.append(dict(op="delete_set", k=k, v=v, age_ms=0, ok=rng.random() < 0.8, fails=fails))
            if rng.random() < 0.7:
                evs.append(dict(op="get", k=k, age_ms=age))
        elif r < 0.80:
            evs.append(dict(op="delete_all", fails=[x for x in KEYS if rng.random() < 0.2]))
        elif r < 0.88:
            evs.append(dict(op="prune_age", fails=fails))
        else:
            evs.append(dict(op="prune_count", fails=fails))
    return dict(id=cid, minage_ms=minage, count=count, hasfn=hasfn, events=evs)


def gen_overfull(rng, cid):
    """a cache pushed two or more entries over its limit while every cleanup fails (both versions keep those entries), then
    cleanups that succeed again: the next insertion has to be followed by pruning back to the limit"""
    count = rng.choice([1, 2, 2, 3])
    keys = ["k%d" % i for i in range(8)]
    evs, v = [], 0
    for k in keys[:count]:
        v += 1
        evs.append(dict(op="set", k=k, v=v, age_ms=0, fails=[]))
        evs.append(dict(op="get", k=k, age_ms=(count - v + 2) * 7 * MIN))
    over = rng.randrange(2, 4)
    for k in keys[count:count + over]:
        v += 1
        evs.append(dict(op="set", k=k, v=v, age_ms=0, fails=list(keys)))
        if rng.random() < 0.5:
            evs.append(dict(op="get", k=k, age_ms=MIN // 2 + v))
    for k in keys[count + over:count + over + rng.randrange(1, 3)]:
        v += 1
        evs.append(dict(op="set", k=k, v=v, age_ms=0, fails=[] if rng.random() < 0.8 else [keys[0]]))
    evs.append(dict(op="get", k=keys[0], age_ms=3 * MIN))
    return dict(id=cid, minage_ms=rng.choice([0, 3600000]), count=count, hasfn=True, events=evs)


def gen_burst(rng, cid):
    """schedules: a Set beyond the limit whose background prune races with removals and further Sets (not waited for);
    after quiescence the clauses that hold for every interleaving are checked (oracle_burst)"""
    count = rng.choice([1, 2, 3, 4, 4, 5, 8])
    evs, v, live, n = [], 0, [], 0
    def fresh():
        nonlocal n
        n += 1
        return "b%d" % n
    for _ in range(count):
        v += 1
        k = fresh()
        live.append(k)
        evs.append(dict(op="set", k=k, v=v, age_ms=0, fails=[]))
    for _ in range(rng.randrange(1, 4)):
        v += 1
        k = fresh()
        live.append(k)
        evs.append(dict(op="set_nw", k=k, v=v, age_ms=0, fails=[]))
        for x in rng.sample(live, min(len(live), rng.randrange(0, count + 2))):
            evs.append(dict(op="delete", k=x, ok=True))
            live.remove(x)
        for _ in range(rng.randrange(0, 2 * count + 3)):
            v += 1
            k = fresh()
            live.append(k)
            evs.append(dict(op=rng.choice(["set", "set_nw"]), k=k, v=v, age_ms=0, fails=[]))
    evs.append(dict(op="quiesce"))
    # one more insertion beyond the limit, waited for
    v += 1
    evs.append(dict(op="set", k=fresh(), v=v, age_ms=0, fails=[]))
    evs.append(dict(op="quiesce", check_bound=True))
    if rng.random() < 0.5:
        # DeleteAll with a Set (of a key that is there, or of a new one) landing while its first cleanup runs
        v += 1
        evs.append(dict(op="delete_all_set", k=rng.choice(live) if live and rng.random() < 0.6 else fresh(), v=v, fails=[]))
        evs.append(dict(op="quiesce"))
    return dict(id=cid, minage_ms=0, count=count, hasfn=True, events=evs, burst=True)


def gen_window(rng, cid):
    """a Get that arrives while a prune (by age or by count) is cleaning up that very entry: it either finds nothing (the entry
    goes) or finds the entry - and then the entry, used a moment ago, stays"""
    keys = ["w0", "w1", "w2", "w3"]
    by_age = rng.random() < 0.6
    count = 0 if by_age else rng.choice([1, 2])
    evs, v = [], 0
    n = rng.randrange(1, 4) if by_age else count + rng.randrange(1, 3)
    for k in keys[:n]:
        v += 1
        evs.append(dict(op="set_nw" if not by_age else "set", k=k, v=v, age_ms=0, fails=list(keys) if not by_age else []))
        evs.append(dict(op="get", k=k, age_ms=(2 * 3600000 + v * MIN) if by_age else (n - v + 1) * 5 * MIN))
    if not by_age:
        evs.append(dict(op="quiesce"))
    target = keys[0] if not by_age else rng.choice(keys[:n])
    evs.append(dict(op="prune_age_get" if by_age else "prune_count_get", k=target, fails=[]))
    evs.append(dict(op="quiesce"))
    return dict(id=cid, minage_ms=3600000 if by_age else 0, count=count, hasfn=True, events=evs, burst=True, window=True)


def oracle_window(ctx, case, out):
    rep = dict(case=case, result=out["events"])
    for ev, r in zip(case["events"], out["events"]):
        if r.get("panic"):
            ctx.violation("cache: %s" % r["panic"], rep, "C20:panic")
            return
        if ev["op"] in ("prune_age_get", "prune_count_get") and r.get("val") is not None:
            final = set(out["events"][-1]["keys"])
            if ev["k"] not in final:
                ctx.violation("entry %s was returned by a Get that arrived while the %s prune was cleaning it up, and was removed all the same: an entry used a moment ago was expired"
                              % (ev["k"], "age" if ev["op"] == "prune_age_get" else "count"), rep, "C20:used-entry-expired")


def oracle_burst(ctx, case, out):
    if case.get("window"):
        return oracle_window(ctx, case, out)
    stored, okcalls = {}, set()
    bound_keys = None
    rep = dict(case=case, result=out["events"][-1])
    for ev, r in zip(case["events"], out["events"]):
        if r.get("panic"):
            ctx.violation("cache panicked: %s" % r["panic"], rep, "C20:panic")
            return
        if ev["op"] in ("set", "set_nw", "delete_all_set"):
            stored[ev["k"]] = ev["v"]
        if ev.get("check_bound"):
            bound_keys = set(r["keys"])
        for c in (r["calls"] or []) + (r.get("all") or []):
            if c["ok"]:
                okcalls.add((c["k"], c["v"]))
    final = set(out["events"][-1]["keys"])
    for x, val in stored.items():
        if x not in final and (x, val) not in okcalls:
            ctx.violation("entry %s (value %s) left the cache without a successful cleanup (racing Set / Delete / count prune)" % (x, val), rep, "C20:removed-without-cleanup")
            return
    if final - set(stored):
        ctx.violation("keys %s present but never stored" % sorted(final - set(stored)), rep, "C20:ghost")
    if bound_keys is None:
        bound_keys = final
    if len(bound_keys) > case["count"]:
        ctx.violation("%d entries remain after insertions beyond the limit %d although every cleanup succeeded and the cache is quiescent: count pruning stopped"
                      % (len(bound_keys), case["count"]), rep, "C20:bound-after-race")


def s_case(c):
    evs = []
    for i, e in enumerate(c["events"]):
        t = 2 * (i + 1) + 1     # model clock of the event's prune: later events are later, and the prune a Set starts runs after the Set (ts)
        ts = 2 * (i + 1)
        f = sl(*[sx(x) for x in e.get("fails", [])])
        if e["op"] == "set":
            evs.append(sl("set", sx(e["k"]), str(e["v"]), str(-e["age_ms"] if e["age_ms"] else ts), str(t), f))
        elif e["op"] == "get":
            evs.append(sl("get", sx(e["k"]), str(-e["age_ms"])))
        elif e["op"] == "delete":
            evs.append(sl("delete", sx(e["k"]), "true" if e["ok"] else "false"))
        elif e["op"] == "delete_set":
            if not e["ok"]:
                # the cleanup of this key fails during the whole event, also in the count prune the Set may start
                f = sl(*[sx(x) for x in e.get("fails", []) + [e["k"]]])
            evs.append(sl("delete_set", sx(e["k"]), str(e["v"]), str(-e["age_ms"] if e["age_ms"] else ts), str(t), "true" if e["ok"] else "false", f))
        elif e["op"] == "delete_all":
            evs.append(sl("delete_all", f))
        elif e["op"] == "prune_age":
            evs.append(sl("prune_age", str(t), f))
        elif e["op"] == "prune_count":
            evs.append(sl("prune_count", str(t), f))
    return sl("ccase", str(c["id"]), str(c["minage_ms"]), str(c["count"]), "true" if c["hasfn"] else "false", sl(*evs))


def oracle(ctx, case, out):
    """the clauses of C20 on the implementation's own log"""
    cur = {}        # key -> (value, age_ms of last use or None once refreshed by a failed cleanup)
    minage, count, hasfn = case["minage_ms"], case["count"], case["hasfn"]
    minc = max(1, int(count * 0.9)) if count > 0 else 0
    for k, (ev, r) in enumerate(zip(case["events"], out["events"])):
        rep = lambda: dict(case=dict(case, events=case["events"][:k + 1]), result=r)
        if r.get("panic"):
            ctx.violation("cache panicked: %s" % r["panic"], rep(), "C20:panic")
            return
        before = dict(cur)
        keys_after = set(r["keys"])
        calls = r["calls"] or []
        okcalls = {(c["k"], c["v"]) for c in calls if c["ok"]}
        failcalls = {(c["k"], c["v"]) for c in calls if not c["ok"]}
        op = ev["op"]
        if op in ("set", "delete_set"):
            pass
        # bookkeeping of values
        clock = 2 * (k + 1)
        rec = lambda age: (-age if age else clock)      # recency: larger = more recently used ("now" of a later event is later)
        if op == "set":
            cur[ev["k"]] = (ev["v"], ev["age_ms"], rec(ev["age_ms"]))
        elif op == "get" and ev["k"] in cur and r["val"] is not None:
            cur[ev["k"]] = (cur[ev["k"]][0], ev["age_ms"], rec(ev["age_ms"]))
        elif op == "delete_set":
            had = ev["k"] in cur
            cur[ev["k"]] = (ev["v"], ev["age_ms"], rec(ev["age_ms"]))
            if hasfn and had and ev["k"] not in keys_after:
                ctx.violation("a value stored while Delete's cleanup of the old value ran was removed without its own cleanup", rep(), "C20:replaced-entry-dropped")
        # removed entries: every one needs a successful cleanup of its current value first
        removed = [x for x in cur if x not in keys_after]
        for x in removed:
            val = cur[x][0]        # (a Set replaces the value of its key; the value present when the entry goes is what must be cleaned up)
            if hasfn and (x, val) not in okcalls:
                ctx.violation("entry %s (value %s) was removed without a successful cleanup of that value (calls: %s)" % (x, val, calls), rep(), "C20:removed-without-cleanup")
            del cur[x]
        # failed cleanups keep the entry
        for (x, val) in failcalls:
            if x not in keys_after:
                ctx.violation("entry %s was removed although its cleanup reported an error" % x, rep(), "C20:error-not-kept")
            elif x in cur and op in ("prune_age", "prune_count", "set", "delete_set") and val == cur[x][0]:
                cur[x] = (cur[x][0], 0, clock + 1)          # refreshed: last use is now
        extra = keys_after - set(cur)
        if extra:
            ctx.violation("keys %s present but never stored" % sorted(extra), rep(), "C20:ghost")
        if op == "prune_age":
            for x, (val, age, _) in before.items():
                if minage > 0 and age is not None and age < minage and x not in keys_after:
                    ctx.violation("entry %s used %d ms ago expired with an age limit of %d ms" % (x, age, minage), rep(), "C20:early-expiry")
                if minage > 0 and age is not None and age > minage + MIN and x in keys_after and (x, val) not in failcalls:
                    ctx.violation("entry %s unused for %d ms survived the age prune (limit %d ms)" % (x, age, minage), rep(), "C20:not-expired")
        if op in ("prune_count",) or (op in ("set", "delete_set") and count > 0 and len(before) + 1 > count):
            # least recently used first: every removed entry is older than every surviving one that did not fail
            rem = [x for x in before if x not in keys_after and x != ev.get("k")]
            kept = [x for x in before if x in keys_after and not any(c["k"] == x and not c["ok"] for c in calls)]
            used = dict(before)
            if op in ("set", "delete_set") and ev["k"] in cur:
                used[ev["k"]] = cur[ev["k"]]          # the entry the event itself stored is the most recently used one
            for x in rem:
                for y in kept:
                    if used[x][2] > used[y][2]:
                        ctx.violation("count prune removed %s (recency %d) but kept %s (recency %d; larger = used more recently)" % (x, used[x][2], y, used[y][2]), rep(), "C20:not-lru")
            if not failcalls and count > 0 and op == "prune_count" and len(keys_after) > max(count, minc):
                ctx.violation("%d entries after the count prune with limit %d" % (len(keys_after), count), rep(), "C20:bound")
            if not failcalls and count > 0 and op != "prune_count" and len(keys_after) > count:
                ctx.violation("%d entries after an insertion beyond the limit %d (the prune it starts has run)" % (len(keys_after), count), rep(), "C20:bound")
        if minage > 0 and keys_after and not r.get("timer"):
            ctx.violation("entries %s are held with an age limit but the expiry timer is not armed" % sorted(keys_after), rep(), "C20:timer-not-armed")
        if hasfn and r["pre"] != r["post"]:
            ctx.violation("PrunePreFn ran %d times, PrunePostFn %d times" % (r["pre"], r["post"]), rep(), "C20:pre-post")


def run(ctx):
    ok_build, blog = ctx.coq_build()
    ok_props, plog = ctx.coq_props() if ok_build else (False, blog)
    ov = {"verif_cache_driver_test.go": os.path.join(VERIF, "harness/inpkg/cache_driver_test.go"),
          "verif_hooks.go": os.path.join(VERIF, "harness/hooks/cache_verif.go")}
    binp = go_test_binary(ctx, "internal/cache", ov, "cache.test")
    cases = []
    cdir = os.path.join(VERIF, "corpus", "C20")
    if os.path.isdir(cdir):
        for fn in sorted(os.listdir(cdir)):
            c = json.load(open(os.path.join(cdir, fn)))
            c["id"] = len(cases) + 1
            cases.append(c)
    ncorpus = len(cases)
    if ctx.replay:
        r = json.load(open(ctx.replay))
        c = r["replay"]["case"]
        c["id"] = 1
        cases = [c]
    else:
        n = 1500 if ctx.tier == "quick" else 60000
        for i in range(n):
            cases.append(gen_case(ctx.rng, len(cases) + 1, ctx.rng.randrange(3, 25)))
        for i in range(n // 15):
            cases.append(gen_overfull(ctx.rng, len(cases) + 1))
    bursts = []
    if not ctx.replay:
        for i in range(300 if ctx.tier == "quick" else 6000):
            bursts.append(gen_burst(ctx.rng, 10000000 + i))
        for i in range(40 if ctx.tier == "quick" else 800):
            bursts.append(gen_window(ctx.rng, 20000000 + i))
    elif cases[0].get("burst"):
        bursts, cases = cases, []
    cf, of = os.path.join(ctx.work, "cache.cases.jsonl"), os.path.join(ctx.work, "cache.out.jsonl")
    with open(cf, "w") as fh:
        for c in cases + bursts:
            fh.write(json.dumps(c) + "\n")
    rc, out = sh([binp, "-test.run", "TestVerifCacheDriver", "-test.count=1", "-test.timeout", "3000s"],
                 env=dict(os.environ, VERIF_CASES=cf, VERIF_OUT=of), timeout=3100)
    if rc != 0:
        raise BuildError("cache driver failed:\n" + out[-2000:])
    iouts = {}
    for line in open(of):
        o = json.loads(line)
        iouts[o["id"]] = o
    for c in bursts:
        oracle_burst(ctx, c, iouts[c["id"]])
    binm = ensure_model()
    p = subprocess.run([binm, "cache"], input="\n".join(s_case(c) for c in cases) + "\n", stdout=subprocess.PIPE, stderr=subprocess.PIPE, text=True, timeout=3000)
    if p.returncode != 0:
        raise BuildError("modelrun cache failed: " + p.stderr[-1000:])
    mouts = {json.loads(l)["id"]: json.loads(l) for l in p.stdout.strip().split("\n") if l}
    nbad = 0
    for c in cases:
        oracle(ctx, c, iouts[c["id"]])
        for k, (a, b) in enumerate(zip(iouts[c["id"]]["events"], mouts[c["id"]]["events"])):
            ca = sorted((x["k"], x["v"], x["ok"]) for x in (a["calls"] or []))
            cb = sorted((x["k"], x["v"], x["ok"]) for x in b["calls"])
            if a["keys"] != b["keys"] or ca != cb or a["val"] != b["val"] or a["err"] != b["err"] or a["timer"] != b["timer"]:
                nbad += 1
                if nbad <= 2:
                    ctx.violation("correspondence: coq/Cache.v (extracted) and cache.Cache disagree at event %d (%s) of case %d" % (k, c["events"][k]["op"], c["id"]),
                                  dict(case=dict(c, events=c["events"][:k + 1]), impl=a, model=b, note="correspondence Cache.c_step vs internal/cache"),
                                  "C20:corr", nofail=not ctx.violations)
                break
    if not ok_props:
        ctx.violation("proof obligations of Props_C20.v no longer check", dict(theorem_file="coq/Props_C20.v", log=plog[-1500:]), "C20:proof", nofail=not ctx.violations)
    ops = {}
    for c in cases:
        for e in c["events"]:
            ops[e["op"]] = ops.get(e["op"], 0) + 1
    ctx.coverage.update(dict(evaluations=len(cases), distinct_nontrivial=len({json.dumps(c["events"]) for c in cases if len(c["events"]) >= 3}),
                             rule="event sequences on the real cache.Cache (corpus %d + random over 5 keys, ages far from the expiry boundary, cleanups that succeed / fail, Set inside Delete's cleanup window, age limits 0/10min/1h, count limits 0..10); non-trivial = at least 3 events, distinct by event list" % ncorpus,
                             traces_validated_against_impl=len(cases) - nbad, correspondence_mismatches=nbad, event_kinds=ops,
                             events=sum(len(c["events"]) for c in cases), racing_burst_cases=len(bursts), exhaustive=False))
    ctx.samples = [cases[ncorpus]["events"][:5]] if len(cases) > ncorpus else [cases[0]["events"][:5]]
    ctx.assumptions = ["model = coq/Cache.v: events at the granularity of the cache's critical sections; the only unlocked window (Delete's cleanup) is modelled with a Set landing inside it",
                       "that the runtime fires time.AfterFunc and schedules the spawned pruneCount goroutine is not modelled: prunes are run through synchronous hooks (the count prune a Set starts is waited for)",
                       "last-use times are set through hooks so that ages are deterministic and far from the expiry boundary"]
