"""C01 - served content always hashes to the digest it is served under.
Theorems: coq/Props_C01.v.  Tie: differential histories (all upload protocols, three
algorithms, algorithm changes, wrong digests) + the direct oracle re-hashing every served
body and every file under blobs/ with real SHA-2."""
import apicheck
import oracles
from api import *

LEVEL = "proof"
PROFILE = dict(blob=4, chunked=5, mount=2, image=3, index=1, artifact=1, mread=2, bread=3, tags=0.3, refs=0.3,
               mdel=0.5, bdel=0.5, sess=1, bad=2.5)


ALGS = ["sha256", "sha384", "sha512"]


def store_level_case(rng, cid, conf):
    """what two handlers working on one upload session do, in orders the scheduler would have to choose: writes after a
    (successful or refused) Verify, algorithm changes with and without content, second handles on a session, Close / Cancel"""
    repo = rng.choice(["a", "a/b"])
    calls, data, nsess = [], {}, 0
    ended = set()          # sessions that were closed or cancelled: a handler can only still be streaming into them, or look them up
    for _ in range(rng.randrange(4, 14)):
        r = rng.random()
        if nsess == 0 or r < 0.15:
            expect = ""
            if rng.random() < 0.2:
                expect = dg(rng.choice(ALGS), b"expected-%d" % rng.randrange(3))
            # (the handlers pass either an algorithm or an expected digest, whose algorithm the session then uses)
            calls.append(dict(fn="create", alg=(expect.split(":")[0] if expect else rng.choice(["", ""] + ALGS)), digest=expect))
            data[nsess] = b""
            nsess += 1
            continue
        k = rng.randrange(nsess)
        if k in ended:
            calls.append(dict(fn=rng.choice(["write", "session"]), sess=k, data=b"late-chunk"))
            continue
        if r < 0.45:
            d = rng.choice([b"chunk-A", b"chunk-B", b"expected-0", b"expected-1", b"x" * rng.randrange(1, 40)])
            calls.append(dict(fn="write", sess=k, data=d))
            data[k] += d
        elif r < 0.7:
            alg = rng.choice(ALGS)
            what = rng.choice(["right", "right", "prefix", "wrong"])
            body = data[k] if what == "right" else (data[k][:max(0, len(data[k]) - 3)] if what == "prefix" else b"something else")
            calls.append(dict(fn="verify", sess=k, digest=dg(alg, body)))
        elif r < 0.78:
            calls.append(dict(fn="chalg", sess=k, alg=rng.choice(ALGS)))
        elif r < 0.84:
            calls.append(dict(fn="session", sess=k))
        elif r < 0.9:
            calls.append(dict(fn="info", sess=k))
        elif r < 0.97:
            calls.append(dict(fn="close", sess=k))
            ended.add(k)
        else:
            calls.append(dict(fn="cancel", sess=k))
            ended.add(k)
    for k in range(nsess):
        if k not in ended and rng.random() < 0.7:
            calls.append(dict(fn="close", sess=k))
    steps = [bc_script(repo, calls)]
    # every digest a session could have been published under is read back: what is served must hash to its name
    cands = set()
    for k, d in data.items():
        for alg in ALGS:
            for n in {len(d), max(0, len(d) - 3)} | set(range(0, len(d) + 1, 7)):
                cands.add(dg(alg, d[:n]))
    for c in calls:
        if c["fn"] == "verify":
            cands.add(c["digest"])
    for d in sorted(cands)[:40]:
        steps.append(blob_get(repo, d))
    return dict(id=cid, conf=conf, steps=steps, contents=[])


def make_cases(ctx, first):
    n, steps = (400, 45) if ctx.tier == "quick" else (12000, 60)
    confs = [mkconf(store="mem"), mkconf(store="dir"), mkconf(store="dir", mlimit=600), mkconf(store="mem", referrer=False)]
    cases = apicheck.std_cases(ctx, first, n, steps, confs, profile=PROFILE)
    nstore = 300 if ctx.tier == "quick" else 10000
    for i in range(nstore):
        cases.append(store_level_case(ctx.rng, first + len(cases), confs[i % 2]))
    for c in cases:
        if c["conf"]["store"] == "dir":
            c["steps"].append(special("snapshot", full=True))
    return cases


def run(ctx):
    apicheck.run(ctx, "C01", make_cases, oracles.c01)
