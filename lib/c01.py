"""C01 - served content always hashes to the digest it is served under.
Theorems: coq/Props_C01.v.  Tie: differential histories (all upload protocols, three
algorithms, algorithm changes, wrong digests) + the direct oracle re-hashing every served
body and every file under blobs/ with real SHA-2."""
import apicheck
import oracles
from api import *

LEVEL = "proof"
PROFILE = dict(blob=4, chunked=5, mount=2, image=3, index=1, artifact=1, mread=2, bread=3, tags=0.3, refs=0.3,
               mdel=0.5, bdel=0.5, sess=1, bad=2.5)


def make_cases(ctx, first):
    n, steps = (400, 45) if ctx.tier == "quick" else (12000, 60)
    confs = [mkconf(store="mem"), mkconf(store="dir"), mkconf(store="dir", mlimit=600), mkconf(store="mem", referrer=False)]
    cases = apicheck.std_cases(ctx, first, n, steps, confs, profile=PROFILE)
    for c in cases:
        if c["conf"]["store"] == "dir":
            c["steps"].append(special("snapshot", full=True))
    return cases


def run(ctx):
    apicheck.run(ctx, "C01", make_cases, oracles.c01)
