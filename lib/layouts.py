"""Builders of on-disk OCI layouts written by the harness before a server is opened on them:
legacy layouts whose referrers are kept under fallback tags (<alg>-<hex>), converted layouts, corrupt ones."""
import json

from api import *


def blob_path(repo, d):
    a, h = d.split(":")
    return "%s/blobs/%s/%s" % (repo, a, h)


class Layout:
    def __init__(self, repo):
        self.repo = repo
        self.blobs = {}        # digest -> bytes
        self.entries = []      # index.json descriptors
        self.annotations = None
        self.layout_file = b'{"imageLayoutVersion":"1.0.0"}'
        self.raw_index = None

    def add_blob(self, data, alg="sha256"):
        d = dg(alg, data)
        self.blobs[d] = data
        return d

    def add_image(self, tag=None, layers=(b"layer-one-data",), cfg=b"{}", **kw):
        for l in layers:
            self.add_blob(l)
        self.add_blob(cfg)
        body = image_manifest(desc(MT_CFG, cfg), [desc(MT_LAYER, l) for l in layers], **kw)
        d = self.add_blob(body)
        e = {"mediaType": MT_OCI_M, "digest": d, "size": len(body)}
        if tag:
            e["annotations"] = {REFNAME: tag}
        self.entries.append(e)
        return body, d

    def add_artifact(self, subject_desc, artifact_type=None, annotations=None, tag=None, cfg_mt=MT_EMPTY, listed=True, alg="sha256", n=0):
        cfg = b"{}"
        self.add_blob(cfg)
        ann = dict(annotations or {})
        ann["n"] = str(n)
        body = image_manifest(desc(cfg_mt, cfg), [], subject=subject_desc, artifact_type=artifact_type, annotations=ann)
        d = self.add_blob(body, alg)
        if listed:
            e = {"mediaType": MT_OCI_M, "digest": d, "size": len(body)}
            if tag:
                e["annotations"] = {REFNAME: tag}
            self.entries.append(e)
        rd = {"mediaType": MT_OCI_M, "digest": d, "size": len(body), "artifactType": artifact_type or cfg_mt, "annotations": ann}
        return body, d, rd

    def add_fallback(self, subject_digest, rdescs, tagname=None):
        """index of referrers under the fallback tag of the subject"""
        a, h = subject_digest.split(":")
        # OCI distribution spec, referrers tag schema: <alg>-<ref> with the digest's hex part limited to 64 characters
        tagname = tagname or "%s-%s" % (a, h[:64])
        body = index_manifest(rdescs)
        d = self.add_blob(body)
        self.entries.append({"mediaType": MT_OCI_I, "digest": d, "size": len(body), "annotations": {REFNAME: tagname}})
        return d

    def add_response(self, subject_digest, rdescs):
        """an already converted referrers response"""
        body = jdump({"schemaVersion": 2, "mediaType": MT_OCI_I, "manifests": rdescs})
        d = self.add_blob(body)
        self.entries.append({"mediaType": MT_OCI_I, "digest": d, "size": len(body), "annotations": {SUBJ: subject_digest}})
        return d

    def files(self):
        idx = {"schemaVersion": 2, "mediaType": MT_OCI_I, "manifests": self.entries}
        if self.annotations is not None:
            idx["annotations"] = self.annotations
        out = []
        if self.layout_file is not None:
            out.append(dict(path=self.repo + "/oci-layout", b64=b64(self.layout_file)))
        out.append(dict(path=self.repo + "/index.json", b64=b64(self.raw_index if self.raw_index is not None else jdump(idx))))
        for d, data in self.blobs.items():
            out.append(dict(path=blob_path(self.repo, d), b64=b64(data)))
        return out


def legacy_layout(rng, repo, kind=None):
    """a layout maintained with the fallback-tag scheme; returns (Layout, expected referrers {subject: set of digests},
    tags that must survive {tag: digest})"""
    L = Layout(repo)
    kind = kind or rng.choice(["accurate", "accurate", "stale", "mixed", "wrongdesc", "coexist", "sha512", "missing", "two-subjects"])     # (C17 enumerates all kinds incl. coexist2, valid-plus-mixed)
    L.kind = kind
    img, dimg = L.add_image(tag="v1")
    img2, dimg2 = L.add_image(tag="v2", layers=(b"hello",))
    sdesc = {"mediaType": MT_OCI_M, "digest": dimg, "size": len(img)}
    sdesc2 = {"mediaType": MT_OCI_M, "digest": dimg2, "size": len(img2)}
    expect = {}
    n = rng.randrange(1, 4)
    arts = [L.add_artifact(sdesc, artifact_type=rng.choice([None, "application/vnd.example.sbom"]),
                           annotations=rng.choice([None, {"k": "v"}]), tag=rng.choice([None, None, "sig%d" % i]), n=i) for i in range(n)]
    rds = [a[2] for a in arts]
    expect[dimg] = {a[1] for a in arts}
    if kind == "accurate":
        L.add_fallback(dimg, rds)
    elif kind == "accurate-dup":
        # accurate, but one referrer is listed twice (a tool appended without looking)
        L.add_fallback(dimg, rds + [rds[0]])
    elif kind == "stale":
        # lists a referrer whose manifest is gone, and misses nothing else
        ghost = {"mediaType": MT_OCI_M, "digest": dg("sha256", b"gone"), "size": 4, "artifactType": "x"}
        L.add_fallback(dimg, rds + [ghost])
    elif kind == "mixed":
        # one fallback index mixing referrers of two subjects
        b3 = L.add_artifact(sdesc2, artifact_type="application/vnd.example.sig", n=7)
        expect[dimg2] = {b3[1]}
        L.add_fallback(dimg, rds + [b3[2]])
    elif kind == "wrongdesc":
        # descriptors without the pulled-up artifactType / annotations
        bare = [{"mediaType": r["mediaType"], "digest": r["digest"], "size": r["size"]} for r in rds]
        L.add_fallback(dimg, bare)
    elif kind == "coexist":
        # an older converted response next to a fallback tag that knows one more referrer
        L.add_response(dimg, rds[:1])
        L.add_fallback(dimg, rds)
    elif kind == "coexist2":
        # a converted response and a fallback tag that each know a referrer the other does not
        extra = L.add_artifact(sdesc, artifact_type="application/vnd.example.sig", n=8)
        expect[dimg].add(extra[1])
        L.add_response(dimg, rds[:1] + [extra[2]])
        later = L.add_artifact(sdesc, artifact_type="application/vnd.example.sbom", n=9)
        expect[dimg].add(later[1])
        L.add_fallback(dimg, rds + [later[2]])
    elif kind == "coexist3":
        # a converted response and a fallback tag that overlap in two or more referrers (merging must still list each once)
        more = [L.add_artifact(sdesc, artifact_type="application/vnd.example.sig", n=10 + j) for j in range(3 - min(n, 3))]
        allr = rds + [m_[2] for m_ in more]
        expect[dimg] |= {m_[1] for m_ in more}
        if rng.random() < 0.5:
            L.add_response(dimg, allr[:2])
            L.add_fallback(dimg, allr)
        else:
            L.add_response(dimg, allr)
            L.add_fallback(dimg, allr[:rng.randrange(2, len(allr) + 1)])
    elif kind == "valid-plus-mixed":
        # an accurate fallback tag for the first subject, and a fallback tag of the second subject that also lists
        # one more referrer of the first
        b3 = L.add_artifact(sdesc2, artifact_type="application/vnd.example.sig", n=7)
        a4 = L.add_artifact(sdesc, artifact_type="application/vnd.example.sig", n=6)
        expect[dimg2] = {b3[1]}
        expect[dimg].add(a4[1])
        if rng.random() < 0.5:
            L.add_fallback(dimg, rds)
            L.add_fallback(dimg2, [b3[2], a4[2]])
        else:
            L.add_fallback(dimg2, [b3[2], a4[2]])
            L.add_fallback(dimg, rds)
    elif kind == "two-mixed":
        # two fallback indexes that each mix referrers of both subjects: neither can be adopted, both contribute to both responses
        r1 = L.add_artifact(sdesc2, artifact_type="application/vnd.example.sig", n=7)
        r2 = L.add_artifact(sdesc, artifact_type="application/vnd.example.sbom", n=8)
        r3 = L.add_artifact(sdesc2, artifact_type="application/vnd.example.sbom", n=9)
        expect[dimg] |= {r2[1]}
        expect[dimg2] = {r1[1], r3[1]}
        if rng.random() < 0.5:
            L.add_fallback(dimg, rds + [r1[2]])
            L.add_fallback(dimg2, [r2[2], r3[2]])
        else:
            L.add_fallback(dimg2, [r2[2], r3[2]])
            L.add_fallback(dimg, rds + [r1[2]])
    elif kind == "sha512":
        img5 = image_manifest(desc(MT_CFG, b"{}"), [])
        d5 = dg("sha512", img5)
        L.blobs[d5] = img5
        L.entries.append({"mediaType": MT_OCI_M, "digest": d5, "size": len(img5), "annotations": {REFNAME: "v5"}})
        s5 = {"mediaType": MT_OCI_M, "digest": d5, "size": len(img5)}
        a5 = L.add_artifact(s5, artifact_type="application/vnd.example.sig", n=9)
        expect[d5] = {a5[1]}
        L.add_fallback(d5, [a5[2]])
        L.add_fallback(dimg, rds)
    elif kind == "missing":
        # the fallback index points at a manifest blob that does not exist at all
        ghost = {"mediaType": MT_OCI_M, "digest": dg("sha256", b"never"), "size": 5, "artifactType": "x"}
        L.add_fallback(dimg, [ghost] + rds)
    elif kind == "two-subjects":
        b3 = L.add_artifact(sdesc2, artifact_type="application/vnd.example.sig", n=7)
        expect[dimg2] = {b3[1]}
        L.add_fallback(dimg, rds)
        L.add_fallback(dimg2, [b3[2]])
    if rng.random() < 0.35:
        # an ordinary tag on a fallback index (a backup / alias a tool put there): it has to survive whatever happens to the
        # fallback tag itself
        fbs = [e for e in L.entries if re.match(r"^sha(256|512)-", e.get("annotations", {}).get(REFNAME, ""))]
        if fbs:
            e0 = rng.choice(fbs)
            alias = {"mediaType": e0["mediaType"], "digest": e0["digest"], "size": e0["size"], "annotations": {REFNAME: "refs-backup"}}
            L.entries.insert(rng.randrange(len(L.entries) + 1), alias)
    if rng.random() < 0.4:
        # ordinary tags that begin like a fallback tag without being one (a suffix, a hex part that is too short), on an index
        # that lists images: not part of the fallback scheme, they stay
        hexpart = dimg.split(":")[1]
        body = index_manifest([{"mediaType": MT_OCI_M, "digest": dimg, "size": len(img)}], annotations={"plain": "index"})
        d_ = L.add_blob(body)
        for t_ in rng.sample(["sha256-" + hexpart + ".meta", "sha256-" + hexpart[:63], "sha256-" + hexpart + "0", "sha512-" + hexpart + "-x"], rng.randrange(1, 3)):
            L.entries.insert(rng.randrange(len(L.entries) + 1), {"mediaType": MT_OCI_I, "digest": d_, "size": len(body), "annotations": {REFNAME: t_}})
    tags = {e["annotations"][REFNAME]: e["digest"] for e in L.entries if e.get("annotations", {}).get(REFNAME) and not re.match(r"^sha(256|512)-[0-9a-f]{64}$", e["annotations"][REFNAME])}
    return L, expect, tags


def corrupt_layout(rng, repo):
    L = Layout(repo)
    L.add_image(tag="v1")
    k = rng.choice(["badjson", "noversion", "nolayout", "truncated", "emptyindex"])
    L.kind = "corrupt-" + k
    if k == "badjson":
        L.raw_index = b'{"schemaVersion":2,"manifests":['
    elif k == "noversion":
        L.layout_file = b'{"imageLayoutVersion":"9.9.9"}'
    elif k == "nolayout":
        L.layout_file = None
    elif k == "truncated":
        full = Layout.files(L)[1]
        L.raw_index = base64.b64decode(full["b64"])[:40]
    elif k == "emptyindex":
        L.raw_index = b""
    return L
