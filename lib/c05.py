"""C05 - garbage collection never removes retained or recent content.
Theorems: coq/Props_C05.v over coq/GC.v (mirror of repoGarbageCollect).  Tie: differential histories (object
graphs pushed through the API, deletes, ageing of blob times through a hook, the real Repo.gc() at random points,
all 16 policy combinations, both stores) + the direct oracle below (reads before and after every collection)."""
import apicheck
from api import *
import gcgen
import gen
import oracles

LEVEL = "proof"


def retained(g, pre, roots, opaque_out=None, walked_out=None):
    """(everything retained, the part of it retained in the role of a manifest): closure of the roots over
    references, plus (recursively) the artifacts listed as referrers of manifests retained as manifests.
    walked_out collects the manifests reached only through the list of manifests of a body that is image and index at once:
    the registry never recorded them as children (the body was pushed as an image), so nothing promises that they stay
    addressable by digest; their bytes, what those reference, and their referrers are retained like those of any other"""
    R, RM = set(), set()
    walked = set()
    work = list(roots)
    while work:
        x = work.pop()
        w_ = isinstance(x, tuple)
        d = x[0] if w_ else x
        if d in RM:
            if not w_:
                walked.discard(d)
            continue
        RM.add(d)
        R.add(d)
        if w_:
            walked.add(d)
        m = g["man"].get(d)
        if pre["blob"].get(d) != 200:
            continue            # its own bytes are gone: it references nothing and its referrers follow the dangling policy
        for a in pre["refs"].get(d, []):
            work.append(a)
        if m:
            for r in m["refs"]:
                if r in (m.get("kids") or []):
                    work.append((r,))
                elif m["kind"] == "index" and r not in (m.get("opaque") or []):
                    # children are manifests (unless listed under a media type that is not a manifest type); one listed under the
                    # media type of the other kind of manifest ("mistyped") is a manifest all the same: what it references is what
                    # its own bytes reference
                    work.append((r,) if w_ else r)
                else:
                    R.add(r)                # config and layers are plain blobs, whatever else their bytes are
                    if m["kind"] == "index" and opaque_out is not None:
                        opaque_out.add(r)   # an index entry of another media type: kept as a blob, but it is an entry of the walk
    if walked_out is not None:
        walked_out |= walked
    return R, RM


def g_closure(g, d, pre, seen=None):
    R, _ = retained(dict(g), dict(pre, refs={}), [d])
    return R


def oracle(ctx, case, io):
    obs = gcgen.observe(case, io)
    rstate = gcgen.replay_state(case, io)
    g = case["graph"]
    for k, (st, res) in enumerate(zip(case["steps"], io["steps"])):
        if st["kind"] != "gc" or "gcid" not in st:
            continue
        if res.get("err"):
            continue          # a failing collection removes nothing; whether it may fail is C06's concern
        o = obs.get(st["gcid"])
        if not o:
            continue
        pre, post = o["pre"], o["post"]
        pol = case["conf"]
        gg = g[st["repo"]]
        # (the replay carries the probes after the collection: the oracle judges the collection by them)
        kend = max([j for j, s_ in enumerate(case["steps"]) if tuple(s_.get("gcprobe") or ()) == ("post", st["gcid"])] + [k])
        hist = lambda **kw: oracles.hist(case, kend, None, policy={x: pol.get(x) for x in ("untagged", "dangling", "withsubj", "grace_ms")}, **kw)
        lost = lambda d: pre["blob"].get(d) == 200 and post["blob"].get(d) != 200
        mlost = lambda d: d in pre["man"] and pre["man"][d][0] == 200 and post["man"].get(d, (None,))[0] != 200
        # tagged manifests and everything they reference, with the referrers of retained manifests
        roots = []
        for t, (s, d) in pre["tag"].items():
            if s == 200:
                roots.append(d)
                if post["tag"].get(t) != (200, d):
                    ctx.violation("tag %s resolved to %s before the collection and to %s after" % (t, d[:19], post["tag"].get(t)), hist(tag=t), "C05:tag-lost")
        # (names that are no registry tags - full references written by another tool - cannot be asked for by name: the listing
        #  says whether they are there, the layout which manifest they name)
        for t, d in (gg.get("exttags") or {}).items():
            if t in (pre["tags"] or []) and pre["blob"].get(d) == 200 and t not in pre["tag"]:
                roots.append(d)
                if t not in (post["tags"] or []):
                    ctx.violation("the name %r (written to index.json by another tool) was listed before the collection and is not listed after" % t, hist(tag=t), "C05:tag-lost")
        def orphan(d):
            """d was listed as a child by an index, which moved its index.json entry to the in-memory child list, and no
            such index survives: d is no retention root of its own (finding F35)"""
            parents = [x for x, m in gg["man"].items() if m["kind"] == "index" and d in m["refs"]]
            return bool(parents) and not any(post["man"].get(x, (0,))[0] == 200 for x in parents) and d not in [v for v in rstate[k][0].values()]
        def opaque_listed(d):
            """d (a manifest) is also listed by some pushed index under a media type that is not a manifest type: the entry the
            in-memory child list keeps for it can carry that media type, and it then no longer resolves as a manifest once
            index.json is re-read (finding F50)"""
            return any(d in (m.get("opaque") or []) for m in gg["man"].values())
        def under_index_listed_as_image(d):
            """d is listed by an index which another index lists under an image media type: when index.json is re-read the
            child list is rebuilt by descending through the children that are listed as indexes only, so d (blob retained) no
            longer resolves as a manifest (finding F58)"""
            parents = [x for x, m in gg["man"].items() if m["kind"] == "index" and d in m["refs"]]
            return any(p_ in (m.get("mistyped") or []) for p_ in parents for m in gg["man"].values())
        nroots_tagged = len(roots)
        if (pol.get("grace_ms") or 3600000) >= 0:
            # a pushed manifest younger than the grace period is retained, with everything it references
            roots += [d for d in sorted(rstate[k][1]) if d in gg["man"] and pre["man"].get(d, (0,))[0] == 200 and not gg["man"][d].get("subject") and not orphan(d)]
        if not dflt(pol.get("untagged"), False):
            roots += [d for d in pre["man"] if pre["man"][d][0] == 200 and d in gg["man"] and not gg["man"][d].get("subject") and not orphan(d)]
        WO = set()
        R, RM = retained(gg, pre, roots, None, WO)
        for d in sorted(R):
            if lost(d) or (d in RM and d not in WO and mlost(d)):
                sig = "C05:child-of-index-listed-as-image" if (not lost(d) and under_index_listed_as_image(d)) else \
                    ("C05:opaque-child-not-a-manifest" if (not lost(d) and opaque_listed(d)) else "C05:retained-removed")
                ctx.violation("collection removed %s, referenced (transitively) by a retained manifest (tagged, young, or untagged with untagged collection off) or a referrer of one" % d[:19],
                              hist(digest=d), sig)
        for s_, lst in pre["refs"].items():
            if s_ in RM and pre["blob"].get(s_) == 200 and post["blob"].get(s_) == 200:
                gone = set(lst) - set(post["refs"].get(s_, []))
                if gone:
                    ctx.violation("referrers %s of the retained subject %s are no longer listed" % (sorted(x[:19] for x in gone), s_[:19]), hist(subject=s_), "C05:referrers-dropped")
        if (pol.get("grace_ms") or 3600000) >= 0:
            # an artifact pushed within the grace period stays listed as a referrer of its subject - retained, or not (yet) there at all
            for s_, lst in pre["refs"].items():
                if pre["blob"].get(s_) == 200 and not (s_ in RM and post["blob"].get(s_) == 200):
                    continue          # (a subject this collection removes takes its referrers response with it: the policy's business)
                gone = {a for a in lst if a in rstate[k][1]} - set(post["refs"].get(s_, []))
                gone = {a for a in gone if post["blob"].get(a) == 200 or pre["blob"].get(a) == 200}
                if gone:
                    ctx.violation("referrers %s of %s, pushed within the grace period, are no longer listed" % (sorted(x[:19] for x in gone), s_[:19]), hist(subject=s_), "C05:young-referrer-dropped")
        # untagged collection off: every manifest stays
        if not dflt(pol.get("untagged"), False):
            for d in sorted(pre["man"]):
                # artifacts (manifests with a subject) follow the referrers policy: covered by the clause above
                if mlost(d) and not gg["man"].get(d, {}).get("subject"):
                    sig = "C05:orphaned-child-collected" if orphan(d) else ("C05:child-of-index-listed-as-image" if under_index_listed_as_image(d) else
                                                                            ("C05:opaque-child-not-a-manifest" if opaque_listed(d) else "C05:untagged-removed"))
                    ctx.violation("untagged collection is off but manifest %s was removed" % d[:19], hist(digest=d), sig)
        # younger than the grace period
        if (pol.get("grace_ms") or 3600000) >= 0:
            for d in sorted(rstate[k][1]):
                if lost(d):
                    ctx.violation("collection removed blob %s which is younger than the grace period" % d[:19], hist(digest=d), "C05:young-removed")
                elif mlost(d) and not gg["man"].get(d, {}).get("subject"):
                    # (an artifact follows the referrers policy of its subject; its bytes stay, checked above)
                    sig = "C05:orphaned-child-collected" if orphan(d) else ("C05:child-of-index-listed-as-image" if under_index_listed_as_image(d) else
                                                                            ("C05:opaque-child-not-a-manifest" if opaque_listed(d) else "C05:young-manifest-removed"))
                    ctx.violation("collection removed manifest %s which is younger than the grace period" % d[:19], hist(digest=d), sig)


def graph_json(w):
    return {r: dict(man=g.man, bytes_len={d: len(b) for d, b in g.bytes.items()}, exttags=getattr(g, "exttags", {})) for r, g in w.g.items()}


EXT_NAMES = ["registry.example.org/team/app:1.0", "localhost:5000/x@y", "v1", "a b", "app:latest", None]


def external_layout(w, rng, i):
    """repository ext as an OCI layout on disk before the server starts; returns the files"""
    import layouts
    import c17
    L = layouts.Layout("ext")
    L.annotations = {c17.CONVERT: "true"}
    g = w.g["ext"]
    g.exttags = {}
    names = rng.sample(EXT_NAMES, rng.randrange(2, 5))
    for j, nm in enumerate(names):
        cfg, lay = b'{"os":"ext%d"}' % j, b"ext-layer-%d-%d" % (i, j)
        body, d = L.add_image(tag=nm, layers=(lay,), cfg=cfg, annotations={"ext": "%d-%d" % (i, j)})
        for b in (cfg, lay, body):
            g.bytes[dg("sha256", b)] = b
            w.contents.add(b)
        g.man[d] = dict(kind="image", refs=[dg("sha256", cfg), dg("sha256", lay)], subject=None, mt=MT_OCI_M)
        if nm:
            g.exttags[nm] = d
    w.add(dict(kind="seed", repo="ext", impl=dict(op="sleep", secs=0),
               model=sl("seed", sx("ext"), "true", sl(*[sl(sx(d), sx(lat(b))) for d, b in sorted(L.blobs.items())]), sl(*[c17.s_entry(e) for e in L.entries]))))
    return L.files()


def make_cases(ctx, first):
    n = 240 if ctx.tier == "quick" else 6000
    rng = ctx.rng
    pols = gcgen.policies()
    cases = []
    for i in range(n):
        pol = pols[i % len(pols)]
        # (removal of emptied repository directories is C06's; here it is switched on - the default - in a quarter of the cases,
        #  because a repository that holds nothing but freshly uploaded blobs looks empty to it)
        emptyrepo = i % 4 == 3
        conf = mkconf(store=("mem", "dir")[(i // len(pols)) % 2], emptyrepo=emptyrepo, **pol)
        # a repository that another tool wrote: its index.json names images by full references, which the layout format allows
        ext = conf["store"] == "dir" and i % 3 != 2
        w = gcgen.GCWorld(rng, conf, (["a"] if i % 3 else ["a", "a/b"]) + (["fresh"] if emptyrepo else []) + (["ext"] if ext else []))
        gcn = 0
        seed = []
        if ext:
            seed = external_layout(w, rng, i)
        for repo in w.repos:
            if repo not in ("fresh", "ext"):
                w.build(repo)
        if emptyrepo:
            # a collection between the blob uploads and the first manifest push of a new repository
            cfg, lay = b'{"architecture":"riscv64"}', b"first-layer-%d" % i
            w.blob("fresh", cfg); w.blob("fresh", lay)
            if rng.random() < 0.3:
                w.age("fresh", "all")
            gcn += 1
            w.collect("fresh", gcn)
            body = image_manifest(desc(MT_CFG, cfg), [desc(MT_LAYER, lay)], annotations={"first": str(i)})
            w.push("fresh", body, MT_OCI_M, [dg("sha256", cfg), dg("sha256", lay)], tag="v1")
            w.add(manifest_get("fresh", "v1"))
            w.g["fresh"].tags["v1"] = dg("sha256", body)
        for rnd in range(rng.randrange(2, 5)):
            repo = w.repo()
            for _ in range(rng.randrange(0, 3)):
                w.mutate(repo)
            if rng.random() < 0.25:
                # one image under two tags, one of the tags deleted, another manifest deleted by digest (the removals reorder
                # index.json: an un-annotated entry of the image can end up in front of its tagged one), everything old
                g_ = w.g[repo]
                other = w.image(repo, tag=None)
                img_d = w.image(repo, tag="t1")
                w.add(manifest_put(repo, "t2", g_.bytes[img_d], ctype=MT_OCI_M))
                g_.tags["t2"] = img_d
                w.add(manifest_delete(repo, rng.choice(["t1", "t2"])))
                if rng.random() < 0.8:
                    w.add(manifest_delete(repo, other))
                for t_ in ("t1", "t2"):
                    g_.tags.pop(t_, None)         # (the oracle derives the tags from the responses)
                w.age(repo, "all")
            r = rng.random()
            if r < 0.35:
                w.age(repo, "all")
            elif r < 0.6:
                w.age(repo, "some")
            if rng.random() < 0.3:
                # between the blob uploads and the manifest push of an image whose content the repository has held before:
                # the blobs were uploaded just now, however old the previous copy is
                w.reupload(repo, unreferenced=rng.random() < 0.7)
            if rng.random() < 0.3:
                # a collection between the blob uploads and the manifest push of one image
                cfg, lay = b'{"architecture":"arm64"}', b"late-layer-%d" % rnd
                w.blob(repo, cfg); w.blob(repo, lay)
                gcn += 1
                w.collect(repo, gcn)
                body = image_manifest(desc(MT_CFG, cfg), [desc(MT_LAYER, lay)], annotations={"late": str(rnd)})
                w.push(repo, body, MT_OCI_M, [dg("sha256", cfg), dg("sha256", lay)], tag="late%d" % rnd)
                w.add(manifest_get(repo, "late%d" % rnd))
                w.g[repo].tags["late%d" % rnd] = dg("sha256", body)
            gcn += 1
            w.collect(repo, gcn)
        if i % 4 == 1:
            # an artifact pushed a moment ago whose subject is not there: whatever the policy says about dangling referrers,
            # what was pushed within the grace period stays
            repo = w.repo() if w.repos[0] == "ext" else rng.choice([r_ for r_ in w.repos if r_ not in ("ext", "fresh")])
            w.image(repo, subject=dg("sha256", b"never-pushed-%d" % i), artifact_type="application/vnd.example.sig")
            gcn += 1
            w.collect(repo, gcn)
        elif i % 4 == 2:
            # a manifest that an old, untagged index lists is pushed again (acknowledged: stored now) before the collection
            # that removes that index
            repo = rng.choice([r_ for r_ in w.repos if r_ not in ("ext", "fresh")])
            m_ = w.image(repo)
            w.index(repo, [m_])
            w.age(repo, "all")
            g_ = w.g[repo]
            w.add(manifest_put(repo, m_, g_.bytes[m_], ctype=g_.man[m_]["mt"]))
            gcn += 1
            w.collect(repo, gcn)
        if ext:
            if rng.random() < 0.7:
                w.age("ext", "all")
            gcn += 1
            w.collect("ext", gcn)
        cases.append(dict(id=first + i, conf=conf, steps=w.steps, contents=sorted(w.contents), graph=graph_json(w), seed=seed))
    return cases


def run(ctx):
    apicheck.run(ctx, "C05", make_cases, oracle,
                 assumptions=["blob ages are set through a hook (os.Chtimes / memRepoBlob.m.mod) and the collection is the real Repo.gc() run synchronously; "
                              "that the ticker and the wait-group/token protocol keep collections and handlers apart is C12/C13's concern",
                              "the directory store is made to re-read index.json before each explicit collection (what it does whenever the file changed since the last load)"])
