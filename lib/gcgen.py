"""Generator and oracles for the garbage-collection checks (C05 safety, C06 liveness).
Object graphs are pushed through the API (images, nested indexes, shared and aliased digests, artifacts with
subjects incl. referrers of referrers, dangling subjects), then deleted from, aged and collected at random points."""
import itertools
import json

from api import *
import gen
import oracles

FULL = [MT_OCI_M, MT_OCI_I, MT_DOCK_M, MT_DOCK_I]
LAYERS = [b"layer-A", b"layer-B", b"layer-shared", b"{}"]


def policies(rng=None):
    out = []
    for ut, dg_, ws in itertools.product([False, True], repeat=3):
        for grace in (-1, 3600000):
            out.append(dict(untagged=ut, dangling=dg_, withsubj=ws, grace_ms=grace))
    return out


def gc_step(repo):
    return dict(kind="gc", repo=repo, impl=dict(op="gc", repo=repo), model=sl("gc", sx(repo)))


class Graph:
    """what the harness pushed into one repository"""

    def __init__(self, repo):
        self.repo = repo
        self.bytes = {}        # digest -> bytes
        self.man = {}          # manifest digest -> dict(kind, refs=[digests], subject=digest|None, mt)
        self.tags = {}         # tag -> digest (harness's last-writer-wins record)
        self.young = set()     # digests pushed since they were last aged

    def refs_closure(self, d, seen=None):
        """d, everything it references transitively (children, config, layers)"""
        seen = set() if seen is None else seen
        if d in seen:
            return seen
        seen.add(d)
        m = self.man.get(d)
        if m:
            for r in m["refs"]:
                self.refs_closure(r, seen)
        return seen


class GCWorld(gen.World):
    def __init__(self, rng, conf, repos):
        super().__init__(rng, conf, repos=repos, profile=dict(bad=0))
        self.g = {r: Graph(r) for r in repos}

    def blob(self, repo, data):
        d = dg("sha256", data)
        g = self.g[repo]
        # HEAD first: whether the push creates the blob (fresh modification time) is read off the responses
        self.add(blob_get(repo, d, head=True))
        self.add(upload_post(repo, digest=d, body=data))
        g.bytes[d] = data
        self.contents.add(data)
        return d

    def push(self, repo, body, mt, refs, subject=None, tag=None, kind="image"):
        g = self.g[repo]
        d = dg("sha256", body)
        ref = tag or d
        self.add(blob_get(repo, d, head=True))
        self.add(manifest_put(repo, ref, body, ctype=mt))
        self.contents.add(body)
        g.bytes[d] = body
        g.man[d] = dict(kind=kind, refs=refs, subject=subject, mt=mt)
        if tag:
            g.tags[tag] = d
        return d

    def image(self, repo, tag=None, subject=None, artifact_type=None):
        rng = self.rng
        cfg = rng.choice([b"{}", b'{"architecture":"amd64"}'])
        layers = rng.sample(LAYERS, rng.randrange(0, 3))
        mans = sorted(self.g[repo].man)
        if mans and rng.random() < 0.15:
            # a digest playing two roles: a layer whose bytes are those of a pushed manifest
            layers = layers + [self.g[repo].bytes[rng.choice(mans)]]
        refs = [self.blob(repo, cfg)] + [self.blob(repo, l) for l in layers]
        sd = None
        if subject is not None:
            sd = {"mediaType": MT_OCI_M, "digest": subject, "size": len(self.g[repo].bytes.get(subject, b""))}
        # (layers of foreign / non-distributable media types are stored like any other layer once a manifest lists them)
        extra = None
        if mans and rng.random() < 0.12:
            # a body that is both: an image (config, layers) that also carries a list of manifests - everything it names is referenced
            kids = rng.sample(mans, min(len(mans), rng.randrange(1, 3)))
            extra = {"manifests": [{"mediaType": self.g[repo].man[c]["mt"], "digest": c, "size": len(self.g[repo].bytes[c])} for c in kids]}
            refs = refs + kids
        body = image_manifest(desc(MT_CFG if subject is None else MT_EMPTY, cfg),
                              [desc(MT_LAYER if rng.random() < 0.8 else rng.choice([gen.FOREIGN, "application/vnd.docker.image.rootfs.foreign.diff.tar.gzip"]), l) for l in layers],
                              subject=sd, artifact_type=artifact_type, annotations={"n": str(len(self.steps))}, extra=extra)
        d = self.push(repo, body, MT_OCI_M, refs, subject=subject, tag=tag, kind="image")
        if extra:
            self.g[repo].man[d]["kids"] = kids
        return d

    def index(self, repo, children, tag=None, subject=None):
        g = self.g[repo]
        sd = None
        if subject is not None:
            sd = {"mediaType": MT_OCI_M, "digest": subject, "size": len(g.bytes.get(subject, b""))}
        mt = self.rng.choice([MT_OCI_I, MT_OCI_I, MT_DOCK_I])
        # (a child may be listed under a media type that is not a manifest type: the digest then plays two roles, an opaque
        #  blob here and a manifest wherever it is listed as one)
        opaque = self.rng.choice(["application/octet-stream", MT_LAYER])
        as_blob = [c for c in children if self.rng.random() < 0.2]
        # (or under the media type of the other kind of manifest: an image listed as an index, an index listed as an image)
        swap = {MT_OCI_M: MT_OCI_I, MT_DOCK_M: MT_DOCK_I, MT_OCI_I: MT_OCI_M, MT_DOCK_I: MT_DOCK_M}
        mistyped = [c for c in children if c not in as_blob and self.rng.random() < 0.12]
        # (the size a descriptor states is the client's word: the registry does not compare it with the blob)
        def size_of(c):
            r_ = self.rng.random()
            return len(g.bytes[c]) if r_ < 0.8 else (0 if r_ < 0.87 else (len(g.bytes[c]) - 1 if r_ < 0.94 else len(g.bytes[c]) + 7))
        body = index_manifest([{"mediaType": opaque if c in as_blob else (swap[g.man[c]["mt"]] if c in mistyped else g.man[c]["mt"]), "digest": c, "size": size_of(c)} for c in children],
                              subject=sd, media_type=mt, annotations={"n": str(len(self.steps))})
        d = self.push(repo, body, mt, list(children), subject=subject, tag=tag, kind="index")
        g.man[d]["opaque"] = as_blob
        g.man[d]["mistyped"] = mistyped
        return d

    def build(self, repo):
        """a random object graph"""
        rng = self.rng
        g = self.g[repo]
        for _ in range(rng.randrange(2, 6)):
            r = rng.random()
            mans = sorted(g.man)
            tag = rng.choice([None, None, "t1", "t2", "v1.0"])
            if r < 0.45 or not mans:
                self.image(repo, tag=tag)
            elif r < 0.65:
                kids = rng.sample(mans, min(len(mans), rng.randrange(1, 3)))
                self.index(repo, kids, tag=tag)
            elif r < 0.9:
                # artifact: subject is an image, an index, another artifact, or dangling
                subj = rng.choice(mans) if rng.random() < 0.8 else dg("sha256", b"dangling-%d" % rng.randrange(2))
                self.image(repo, tag=rng.choice([None, None, "sig"]), subject=subj, artifact_type=rng.choice(gen.ATYPES))
            else:
                # a digest playing two roles: a blob whose bytes are a pushed manifest / a layer equal to a config
                m = rng.choice(mans)
                self.blob(repo, g.bytes[m])

    def mutate(self, repo):
        rng = self.rng
        g = self.g[repo]
        r = rng.random()
        if r < 0.30 and g.tags:
            t = rng.choice(sorted(g.tags))
            self.add(manifest_delete(repo, t))
            g.tags.pop(t, None)
        elif r < 0.58 and g.man:
            # an index with children is not deleted by digest here: its children would be left only in the in-memory
            # child list (known finding F35, demonstrated by corpus/C05/f35-orphaned-child.json)
            cands = [d for d in sorted(g.man) if not (g.man[d]["kind"] == "index" and g.man[d]["refs"])]
            if not cands:
                return
            d = rng.choice(cands)
            self.add(manifest_delete(repo, d))
            for t in [t for t, x in g.tags.items() if x == d]:
                del g.tags[t]
        elif r < 0.66 and g.bytes:
            cands = [d for d in sorted(g.bytes) if not (d in g.man and g.man[d]["kind"] == "index" and g.man[d]["refs"])]
            if not cands:
                return
            d = rng.choice(cands)
            self.add(blob_delete(repo, d))
        elif 0.80 <= r < 0.88 and g.man:
            # a manifest that is already there gets one more tag (several index.json entries of one digest)
            d = rng.choice(sorted(g.man))
            if g.man[d].get("subject"):
                return
            tag = rng.choice(["t1", "t2", "v1.0"])
            self.add(manifest_put(repo, tag, g.bytes[d], ctype=g.man[d]["mt"]))
            g.tags[tag] = d
        elif r < 0.80 and g.bytes:
            self.reupload(repo)
        else:
            self.build(repo)

    def reupload(self, repo, unreferenced=False):
        """content that is already stored (possibly old by now) is uploaded again through a session: it was uploaded just now"""
        rng = self.rng
        g = self.g[repo]
        plain = [x for x in sorted(g.bytes) if x not in g.man]     # (config / layer content, not the bytes of a manifest)
        if unreferenced:
            used = {r_ for m in g.man.values() for r_ in m["refs"]}
            plain = [x for x in plain if x not in used] or plain
        if not plain:
            return
        d = rng.choice(plain)
        data = g.bytes[d]
        if rng.random() < 0.4:
            # in one request, naming the digest: acknowledged without a session when the content is there already
            self.add(upload_post(repo, digest=d, body=data))
            return
        k = self.add(upload_post(repo))
        h = len(data) // 2
        if h and rng.random() < 0.5:
            self.add(upload_patch(repo, "$SID%d$" % k, None, state_token(0), data[:h]))
            self.add(upload_put(repo, "$SID%d$" % k, None, d, state_token(h), data[h:]))
        else:
            self.add(upload_put(repo, "$SID%d$" % k, None, d, state_token(0), data))

    def age(self, repo, which="all"):
        g = self.g[repo]
        if which == "all":
            self.add(age_step(repo, "", 7200))
        else:
            # what a manifest references was stored before the manifest: ageing a manifest ages everything below it, so that
            # the modification times stay those of a history of pushes (a parent is never older than its children)
            todo = list(self.rng.sample(sorted(g.bytes), min(len(g.bytes), self.rng.randrange(1, 4))))
            done = []
            while todo:
                d = todo.pop(0)
                if d in done:
                    continue
                done.append(d)
                if d in g.man:
                    todo += [x for x in g.man[d]["refs"] if x in g.bytes]
            for d in done:
                self.add(age_step(repo, d, 7200))

    def probe_gc(self, repo, mark):
        g = self.g[repo]
        st = [tag_list(repo)]
        for t in ["t1", "t2", "v1.0", "sig"]:
            st.append(manifest_get(repo, t))
        for d in sorted(g.bytes):
            st.append(blob_get(repo, d, head=True))
            if d in g.man:
                x_ = manifest_get(repo, d, head=True)
                if any(d in (m.get("mistyped") or []) for m in g.man.values()):
                    # listed under two kinds of manifest media types by different entries: which claim the answer carries depends on
                    # the order in which the child list was rebuilt (finding F55 is about that answer); not compared here
                    x_["noctype"] = True
                st.append(x_)
        subs = {m["subject"] for m in g.man.values() if m["subject"]}
        for s in sorted(subs):
            st.append(referrers(repo, s))
        for x in st:
            x["gcprobe"] = mark
            self.add(x)

    def collect(self, repo, n):
        """probe, collect, probe"""
        self.probe_gc(repo, ("pre", n))
        k = self.add(gc_step(repo))
        self.steps[k]["gcid"] = n
        self.probe_gc(repo, ("post", n))


def observe(case, io):
    """per collection: what was readable before and after"""
    obs = {}
    for k, (st, res) in enumerate(zip(case["steps"], io["steps"])):
        mk = st.get("gcprobe")
        if not mk:
            continue
        phase, n = mk
        o = obs.setdefault(n, dict(pre=dict(blob={}, man={}, tag={}, refs={}, tags=None), post=dict(blob={}, man={}, tag={}, refs={}, tags=None), k=k))[phase]
        c = canon_impl(dict(st, model=None), res, SidMap())      # (also for steps the model does not cover)
        if st["kind"] == "blobget":
            o["blob"][st["arg"]] = res.get("status")
        elif st["kind"] == "mget":
            if gen.is_tag_py(st["arg"]):
                o["tag"][st["arg"]] = (res.get("status"), c.get("digest"))
                o.setdefault("tagerrs", {})[st["arg"]] = c.get("errs")
            else:
                o["man"][st["arg"]] = (res.get("status"), c.get("errs"))
        elif st["kind"] == "refs":
            o["refs"][st["arg"]] = [json.loads(x)["dig"] for x in (c.get("refs") or [])]
        elif st["kind"] == "tags":
            o["tags"] = c.get("tags")
    return obs


def replay_state(case, io):
    """tags and young digests of each repository as they follow from the responses, per collection step:
    {step index: (tags {tag: digest}, young set, all_old bool)}"""
    tags, young, last_head, out = {}, {}, {}, {}
    gone = {}          # repo -> digests whose blob was deleted explicitly and not stored again since
    for k, (st, res) in enumerate(zip(case["steps"], io["steps"])):
        repo = st.get("repo")
        tg, yg = tags.setdefault(repo, {}), young.setdefault(repo, set())
        gn = gone.setdefault(repo, set())
        kind, status = st["kind"], res.get("status")
        if status == 201:
            # stored (again)
            gn.discard(st.get("digest") or "")
            if kind == "mput":
                gn.discard((res.get("headers") or {}).get("Docker-Content-Digest", [""])[0])
        if kind == "blobget" and st.get("head"):
            last_head[(repo, st["arg"])] = (k, status)
        elif kind == "upost" and status == 201 and st["digest"]:
            # acknowledged now: uploaded now, whether or not the repository held the content already
            yg.add(st["digest"])
        elif kind == "uput" and status == 201 and st.get("digest"):
            yg.add(st["digest"])          # written through a session: stored (again) now
        elif kind == "mput" and status == 201:
            d = (res.get("headers") or {}).get("Docker-Content-Digest", [""])[0]
            yg.add(d)
            if gen.is_tag_py(st["arg"]):
                tg[st["arg"]] = d
        elif kind == "mdel" and status == 202:
            if gen.is_tag_py(st["arg"]):
                tg.pop(st["arg"], None)
            else:
                for t in [t for t, x in tg.items() if x == st["arg"]]:
                    del tg[t]
        elif kind == "blobdel" and status == 202:
            yg.discard(st["arg"])
            gn.add(st["arg"])
        elif kind == "age":
            if st["impl"].get("digest"):
                yg.discard(st["impl"]["digest"])
            else:
                yg.clear()
        elif kind == "gc":
            out[k] = (dict(tg), set(yg))
            if not res.get("err"):
                # the collection prunes index entries without a backing blob, their tags with them
                for t in [t for t, x in tg.items() if x in gn]:
                    del tg[t]
    return out
