"""C02 - acknowledged pushes read back byte-identical until deleted or collected.
Theorems: coq/Props_C02.v.  Tie: differential histories incl. re-pushes, tag moves, deletes,
restarts (directory store), sizes around the manifest limit with known/unknown length, ranges,
Accept lists + the direct oracle (harness-side record of every acknowledged push)."""
import apicheck
import oracles
from api import *
import gen

LEVEL = "proof"
PROFILE = dict(blob=3, chunked=2, mount=1.5, image=5, index=3, artifact=1, mread=5, bread=4, tags=0.5, refs=0.3,
               mdel=1.5, bdel=0.7, sess=0.3, bad=1.0)


def make_cases(ctx, first):
    n, steps = (400, 45) if ctx.tier == "quick" else (12000, 60)
    # Close() of the directory store collects every open repository: with the default policy that removes
    # the referrers response of a subject that was deleted.  Collections belong to C05/C06, so the
    # restart histories of this check run with a policy under which a collection removes nothing young.
    confs = [mkconf(store="mem"), mkconf(store="dir", withsubj=False, emptyrepo=True), mkconf(store="dir", mlimit=700, withsubj=False),
             mkconf(store="mem", mlimit=500)]
    cases = []
    for i in range(n):
        conf = confs[i % len(confs)]
        w = gen.World(ctx.rng, conf, profile=PROFILE)
        w.run(steps // 2)
        if conf["store"] == "dir" and ctx.rng.random() < 0.7:
            w.add(restart_step())
            w.probe()
        w.run(len(w.steps) + steps // 2)
        w.probe()
        if ctx.rng.random() < 0.25:
            # everything grows old and a collection runs under the configured (default) policy: untagged manifests stay, and so
            # does every config, layer and child a stored manifest references - whatever the media type it is listed under
            import gcgen
            for r_ in w.repos:
                w.add(gcgen.age_step(r_, "", 7200))
                w.add(gcgen.gc_step(r_))
            w.probe()
        if conf["store"] == "dir" and i % 8 == 1:
            # a repository that holds a nested one, between the blob uploads and the manifest push of its first image, when a
            # collection runs (removal of emptied repositories is on by default): the blobs were acknowledged a moment ago
            import gcgen
            outer, inner = "a", "a/b"
            fresh = not w.manifests[outer] and not w.tags[outer]
            w.ensure_blob(inner, b"{}")
            mi = image_manifest(desc(MT_CFG, b"{}"), [], annotations={"nested": str(i)})
            w.contents.add(mi)
            w.add(manifest_put(inner, "t1", mi, ctype=MT_OCI_M))
            cfg_, lay_ = b'{"os":"linux"}', b"outer-layer-%d" % i
            for b_ in (cfg_, lay_):
                w.contents.add(b_)
                w.add(upload_post(outer, digest=dg("sha256", b_), body=b_))
            w.add(gcgen.gc_step(outer))
            w.add(blob_get(outer, dg("sha256", cfg_)))
            w.add(blob_get(outer, dg("sha256", lay_), head=True))
            mo = image_manifest(desc(MT_CFG, cfg_), [desc(MT_LAYER, lay_)], annotations={"outer": str(i)})
            w.contents.add(mo)
            w.add(manifest_put(outer, "first", mo, ctype=MT_OCI_M))
            w.add(manifest_get(outer, "first"))
        cases.append(dict(id=first + i, conf=conf, steps=w.steps, contents=sorted(w.contents)))
    return cases


def run(ctx):
    apicheck.run(ctx, "C02", make_cases, oracles.c02,
                 assumptions=["collections are not part of these histories (what a collection may remove is decided by C05/C06); restarts only on the directory store",
                              "net/http.ServeContent is trusted for Range handling; only single satisfiable byte ranges are generated"])
