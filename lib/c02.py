"""C02 - acknowledged pushes read back byte-identical until deleted or collected.
Theorems: coq/Props_C02.v.  Tie: differential histories incl. re-pushes, tag moves, deletes,
restarts (directory store), sizes around the manifest limit with known/unknown length, ranges,
Accept lists + the direct oracle (harness-side record of every acknowledged push)."""
import apicheck
import oracles
from api import *
import gen

LEVEL = "proof"
PROFILE = dict(blob=3, chunked=2, mount=1.5, image=5, index=3, artifact=1, mread=5, bread=4, tags=0.5, refs=0.3,
               mdel=1.5, bdel=0.7, sess=0.3, bad=1.0)


def many_referrers(w, rng, conf, i):
    """a tagged image with so many artifacts pushed by digest that the referrers response the registry keeps for it is larger
    than the manifest size limit (which binds what clients push, not what the registry maintains); returns the reads of them"""
    repo = w.repo()
    cfg = b"{}"
    w.contents.add(cfg)
    w.add(upload_post(repo, digest=dg("sha256", cfg), body=cfg))
    if cfg not in w.blobs[repo]:
        w.blobs[repo].append(cfg)
    base = image_manifest(desc(MT_CFG, cfg), [], annotations={"m": str(i)})
    w.contents.add(base)
    w.add(manifest_put(repo, "many", base, ctype=MT_OCI_M))
    w.manifests[repo].append((base, MT_OCI_M))
    w.tags[repo].add("many")
    sd = {"mediaType": MT_OCI_M, "digest": dg("sha256", base), "size": len(base)}
    reads = []
    for j in range(min(26, conf["mlimit"] // 170 + 2)):
        a = image_manifest(desc(MT_EMPTY, cfg), [], subject=sd, artifact_type="a/b", annotations={"j": str(j)})
        w.contents.add(a)
        w.add(manifest_put(repo, dg("sha256", a), a, ctype=MT_OCI_M))
        reads.append(manifest_get(repo, dg("sha256", a), head=j % 2 == 0))
    w.add(referrers(repo, dg("sha256", base)))
    reads.append(referrers(repo, dg("sha256", base)))
    reads.append(manifest_get(repo, "many"))
    return reads


def make_cases(ctx, first):
    n, steps = (400, 45) if ctx.tier == "quick" else (12000, 60)
    # Close() of the directory store collects every open repository: with the default policy that removes
    # the referrers response of a subject that was deleted.  Collections belong to C05/C06, so the
    # restart histories of this check run with a policy under which a collection removes nothing young.
    confs = [mkconf(store="mem"), mkconf(store="dir", withsubj=False, emptyrepo=True), mkconf(store="dir", mlimit=700, withsubj=False),
             mkconf(store="mem", mlimit=500)]
    cases = []
    for i in range(n):
        conf = confs[i % len(confs)]
        w = gen.World(ctx.rng, conf, profile=PROFILE)
        w.run(steps // 2)
        if conf["store"] == "dir" and ctx.rng.random() < 0.7:
            w.add(restart_step())
            w.probe()
        w.run(len(w.steps) + steps // 2)
        w.probe()
        many = None
        if i % 16 in (2, 3, 7, 12):
            many = many_referrers(w, ctx.rng, conf, i)
        if many or ctx.rng.random() < 0.25:
            # everything grows old and a collection runs under the configured (default) policy: untagged manifests stay, and so
            # does every config, layer and child a stored manifest references - whatever the media type it is listed under
            import gcgen
            for r_ in w.repos:
                w.add(gcgen.age_step(r_, "", 7200))
                w.add(gcgen.gc_step(r_))
            w.probe()
            if many:
                for x_ in many:
                    w.add(dict(x_))
        if i % 16 in (5, 9, 14):
            # content nothing references, grown old, pushed again through an upload session (or in one request) and acknowledged:
            # uploaded a moment ago when the next collection runs
            import gcgen
            repo = w.repo()
            data = b"old-unreferenced-%d" % i
            d_ = dg("sha256", data)
            w.contents.add(data)
            w.add(upload_post(repo, digest=d_, body=data))
            if data not in w.blobs[repo]:
                w.blobs[repo].append(data)
            w.add(gcgen.age_step(repo, "", 7200))
            if i % 16 == 14:
                w.add(upload_post(repo, digest=d_, body=data))
            else:
                ks_ = w.add(upload_post(repo))
                if i % 16 == 9:
                    w.add(upload_patch(repo, "$SID%d$" % ks_, None, state_token(0), data))
                    w.add(upload_put(repo, "$SID%d$" % ks_, None, d_, state_token(len(data)), b""))
                else:
                    w.add(upload_put(repo, "$SID%d$" % ks_, None, d_, state_token(0), data))
            w.add(gcgen.gc_step(repo))
            w.add(blob_get(repo, d_))
            w.add(blob_get(repo, d_, head=True))
        if conf["store"] == "dir" and i % 8 == 1:
            # a repository that holds a nested one, between the blob uploads and the manifest push of its first image, when a
            # collection runs (removal of emptied repositories is on by default): the blobs were acknowledged a moment ago
            import gcgen
            outer, inner = "a", "a/b"
            fresh = not w.manifests[outer] and not w.tags[outer]
            w.ensure_blob(inner, b"{}")
            mi = image_manifest(desc(MT_CFG, b"{}"), [], annotations={"nested": str(i)})
            w.contents.add(mi)
            w.add(manifest_put(inner, "t1", mi, ctype=MT_OCI_M))
            cfg_, lay_ = b'{"os":"linux"}', b"outer-layer-%d" % i
            for b_ in (cfg_, lay_):
                w.contents.add(b_)
                w.add(upload_post(outer, digest=dg("sha256", b_), body=b_))
            w.add(gcgen.gc_step(outer))
            w.add(blob_get(outer, dg("sha256", cfg_)))
            w.add(blob_get(outer, dg("sha256", lay_), head=True))
            mo = image_manifest(desc(MT_CFG, cfg_), [desc(MT_LAYER, lay_)], annotations={"outer": str(i)})
            w.contents.add(mo)
            w.add(manifest_put(outer, "first", mo, ctype=MT_OCI_M))
            w.add(manifest_get(outer, "first"))
        cases.append(dict(id=first + i, conf=conf, steps=w.steps, contents=sorted(w.contents)))
    return cases


def run(ctx):
    apicheck.run(ctx, "C02", make_cases, oracles.c02,
                 assumptions=["collections are not part of these histories (what a collection may remove is decided by C05/C06); restarts only on the directory store",
                              "net/http.ServeContent is trusted for Range handling; only single satisfiable byte ranges are generated"])
