"""C02 - acknowledged pushes read back byte-identical until deleted or collected.
Theorems: coq/Props_C02.v.  Tie: differential histories incl. re-pushes, tag moves, deletes,
restarts (directory store), sizes around the manifest limit with known/unknown length, ranges,
Accept lists + the direct oracle (harness-side record of every acknowledged push)."""
import apicheck
import oracles
from api import *
import gen

LEVEL = "proof"
PROFILE = dict(blob=3, chunked=2, mount=1.5, image=5, index=3, artifact=1, mread=5, bread=4, tags=0.5, refs=0.3,
               mdel=1.5, bdel=0.7, sess=0.3, bad=1.0)


def make_cases(ctx, first):
    n, steps = (400, 45) if ctx.tier == "quick" else (12000, 60)
    # Close() of the directory store collects every open repository: with the default policy that removes
    # the referrers response of a subject that was deleted.  Collections belong to C05/C06, so the
    # restart histories of this check run with a policy under which a collection removes nothing young.
    confs = [mkconf(store="mem"), mkconf(store="dir", withsubj=False), mkconf(store="dir", mlimit=700, withsubj=False),
             mkconf(store="mem", mlimit=500)]
    cases = []
    for i in range(n):
        conf = confs[i % len(confs)]
        w = gen.World(ctx.rng, conf, profile=PROFILE)
        w.run(steps // 2)
        if conf["store"] == "dir" and ctx.rng.random() < 0.7:
            w.add(restart_step())
            w.probe()
        w.run(len(w.steps) + steps // 2)
        w.probe()
        if ctx.rng.random() < 0.25:
            # everything grows old and a collection runs under the configured (default) policy: untagged manifests stay, and so
            # does every config, layer and child a stored manifest references - whatever the media type it is listed under
            import gcgen
            for r_ in w.repos:
                w.add(gcgen.age_step(r_, "", 7200))
                w.add(gcgen.gc_step(r_))
            w.probe()
        cases.append(dict(id=first + i, conf=conf, steps=w.steps, contents=sorted(w.contents)))
    return cases


def run(ctx):
    apicheck.run(ctx, "C02", make_cases, oracles.c02,
                 assumptions=["collections are not part of these histories (what a collection may remove is decided by C05/C06); restarts only on the directory store",
                              "net/http.ServeContent is trusted for Range handling; only single satisfiable byte ranges are generated"])
