"""C13 - concurrent use of one server is free of data races.
Theorems: coq/Props_C13.v - the lockset discipline of coq/Access.v evaluated on the table of shared-field accesses that
harness/gofacts regenerates from the source on every run (Gen_Access.v): every field of the shared structures that is
written after construction is only read or written while the mutex of its structure is held.
Search for a failing execution: the concurrent workloads of C11 and C12 (client threads on one repository, uploads racing
expiry and eviction, traffic against a running collection ticker, Close racing the ticker) on a server built with the Go
race detector; every report whose stacks lie in olareg code is a violation, identified by the pair of functions."""
import glob
import json
import os
import re

from api import *
import c11
import c12

LEVEL = "proof"


def parse_reports(text):
    """[(signature, report text)] for the race reports that involve olareg code (not only the test driver)"""
    out = []
    for rep in re.split(r"={10,}", text):
        if "DATA RACE" not in rep:
            continue
        blocks = re.split(r"\n\n", rep.strip())
        tops = []
        for b in blocks:
            if re.match(r"\s*(Write|Read|Previous write|Previous read)", b.strip()):
                lines = [l.strip() for l in b.split("\n")[1:] if l.strip()]
                funcs = []
                for fl, loc in zip(lines[0::2], lines[1::2]):
                    if "olareg" in fl and "verif_" not in loc and "_test.go" not in loc:
                        funcs.append(re.sub(r"\(\)$", "", fl).split("/")[-1])
                tops.append(funcs[0] if funcs else "?")
        if not tops or all(t == "?" for t in tops):
            continue
        sig = " / ".join(sorted(set(tops)))
        out.append((sig, rep.strip()[:5000]))
    return out


def sc_evict_stalled(rng, cid, store):
    """a chunked upload whose body arrives slowly becomes the least recently used session while other clients open more
    sessions than the limit: the eviction goroutine removes it while its handler is still copying (grace period disabled or not)"""
    conf = mkconf(store=store, withsubj=False, uploadmax=rng.choice([1, 2, 3]), grace_ms=(-1 if cid % 2 else rng.choice([-1, 0, 3600000])))
    steps = [upload_post("u", digest=dg("sha256", b"{}"), body=b"{}"), upload_post("u")]
    sid = "$SID1$"
    data = bytes(rng.randrange(256) for _ in range(rng.randrange(2000, 20000)))
    patch = upload_patch("u", sid, None, state_token(0), data)
    # the other clients are goroutines of their own (no synchronisation with the stalled handler but the store's own)
    others = []
    for j in range(conf["uploadmax"] + rng.randrange(1, 4)):
        p = upload_post("u")
        p["impl"] = dict(p["impl"], idx=2000 + j)
        others.append([p["impl"]])
    mids = [dict(kind="async", impl=dict(op="async", par=others), model="(skip)"), special("sleep", secs=0.1)]
    sp = split(patch, len(data) // 2, mids)
    steps += [sp, dict(kind="join", impl=dict(op="join", secs=5.0), model="(skip)"), upload_get("u", sid), tag_list("u"), special("close")]
    for st in steps:
        st["model"] = "(skip)"
    return dict(id=cid, conf=conf, steps=steps, scenario="evict-stalled-upload")


def sc_children(rng, cid, store, deletes=True):
    """children of an index live in the in-memory child list: one client pulls them by digest while others tag and untag a
    child, delete one and push the index again"""
    conf = mkconf(store=store, withsubj=False)
    repo = "p/q"
    cfg = b"{}"
    steps = [upload_post(repo, digest=dg("sha256", cfg), body=cfg)]
    kids = []
    for j in range(rng.randrange(3, 6)):
        m = image_manifest(desc(MT_CFG, cfg), [], annotations={"platform": str(j), "case": str(cid)})
        kids.append(m)
        steps.append(manifest_put(repo, dg("sha256", m), m, ctype=MT_OCI_M))
    idx = index_manifest([desc(MT_OCI_M, m) for m in kids], media_type=MT_OCI_I, annotations={"case": str(cid)})
    steps.append(manifest_put(repo, "multi", idx, ctype=MT_OCI_I))
    reader = []
    for _ in range(rng.randrange(20, 40)):
        reader.append(manifest_get(repo, dg("sha256", rng.choice(kids)), head=rng.random() < 0.3))
    writer = []
    for _ in range(rng.randrange(4, 9)):
        k = rng.choice(kids)
        r = rng.random()
        if r < 0.4:
            writer += [manifest_put(repo, "one", k, ctype=MT_OCI_M), manifest_delete(repo, "one")]
        elif r < 0.6 and deletes:
            writer += [manifest_delete(repo, dg("sha256", k)), manifest_put(repo, dg("sha256", k), k, ctype=MT_OCI_M)]
        else:
            writer.append(manifest_put(repo, "multi", idx, ctype=MT_OCI_I))
    threads = [reader, writer] + ([[manifest_get(repo, "multi") for _ in range(10)]] if rng.random() < 0.5 else [])
    steps.append(dict(kind="par", impl=dict(op="par", par=[[s["impl"] for s in th] for th in threads]), model="(skip)"))
    steps += [tag_list(repo), special("close")]
    for st in steps:
        st["model"] = "(skip)"
    return dict(id=cid, conf=conf, steps=steps, scenario="children-by-digest", threads=threads)


def sc_readonly_first_load(rng, cid, store):
    """a read-only directory store: the first requests after every start load the index of a repository while others read its blobs"""
    conf = mkconf(store="dir", withsubj=False)
    steps = c12.base_steps(("a",))
    ro = dict(conf, ro=True)
    for _ in range(8):
        steps.append(dict(kind="restart", impl=dict(op="restart", conf=ro), model="(skip)"))
        threads = [[manifest_get("a", "v1"), tag_list("a")], [blob_get("a", dg("sha256", b"layer-shared")), blob_get("a", dg("sha256", b"{}"), head=True)],
                   [referrers("a", dg("sha256", b"nothing"), None), blob_get("a", dg("sha256", b"layer-shared"), head=True)]]
        rng.shuffle(threads)
        steps.append(dict(kind="par", impl=dict(op="par", par=[[x["impl"] for x in th] for th in threads]), model="(skip)"))
    steps.append(special("close"))
    for st in steps:
        st["model"] = "(skip)"
    return dict(id=cid, conf=conf, steps=steps, scenario="read-only-first-load")


def sc_tag_churn(rng, cid, store):
    """one tag pushed by one client and deleted by another, over and over, with a logger that formats every record"""
    conf = mkconf(store=store, withsubj=False, debuglog=True)
    steps = c12.base_steps(("a",))
    m = c12.manifest(rng.randrange(1000))
    pusher = [manifest_put("a", "churn", m, ctype=MT_OCI_M) for _ in range(40)]
    deleter = [manifest_delete("a", "churn") for _ in range(40)]
    mover = [manifest_put("a", "churn", c12.manifest(1000 + j), ctype=MT_OCI_M) for j in range(20)]
    threads = [pusher, deleter, mover]
    steps.append(dict(kind="par", impl=dict(op="par", par=[[x["impl"] for x in th] for th in threads]), model="(skip)"))
    steps += [tag_list("a"), special("close")]
    for st in steps:
        st["model"] = "(skip)"
    return dict(id=cid, conf=conf, steps=steps, scenario="tag-churn-debug-log", threads=threads)


def sc_session_overlap(rng, cid, store):
    """requests of several clients on ONE upload session at the same time: a chunk arriving while the session is completed,
    status queries while chunks stream in, two chunks at once - whatever they are answered, the session's state (buffer / file,
    size, digester) is only touched with the session's mutex"""
    conf = mkconf(store=store, withsubj=False)
    steps = []
    for j in range(rng.randrange(10, 16)):
        k = len(steps)
        sid = "$SID%d$" % k
        c0 = b"chunk-zero-%d-" % j * rng.randrange(1, 40)
        c1 = b"chunk-one-%d-" % j * rng.randrange(1, 40)
        steps.append(upload_post("a"))
        steps.append(upload_patch("a", sid, None, state_token(0), c0))
        late = upload_patch("a", sid, None, state_token(len(c0)), c1)
        done0 = upload_put("a", sid, None, dg("sha256", c0), state_token(len(c0)), b"")
        done1 = upload_put("a", sid, None, dg("sha256", c0 + c1), state_token(len(c0) + len(c1)), b"")
        status = [upload_get("a", sid) for _ in range(4)]
        shape = j % 3
        if shape == 0:
            threads = [[late], [done0], status[:2]]
        elif shape == 1:
            threads = [[late, done1], status, [dict(late)]]
        else:
            threads = [[late], [done0], [dict(done0)], status[:1]]
        steps.append(dict(kind="par", impl=dict(op="par", par=[[x["impl"] for x in th] for th in threads]), model="(skip)"))
        steps.append(upload_delete("a", sid))
    steps.append(special("close"))
    for st in steps:
        st["model"] = "(skip)"
    return dict(id=cid, conf=conf, steps=steps, scenario="one-session-several-clients")


def run(ctx):
    ok_build, blog = ctx.coq_build()
    ok_props, plog = ctx.coq_props() if ok_build else (False, blog)
    binp = api_binary(ctx, race=True)
    rng = ctx.rng
    reps = 1 if ctx.tier == "quick" else 20
    cases = []
    for _ in range(reps):
        for i in range(18):
            cases.append(c11.gen_case(rng, len(cases) + 1, ("mem", "dir", "memdir")[i % 3]))
        for store in ("mem", "dir"):
            for f, n in ((c12.sc_waiter, 2), (c12.sc_close_ticker, 1), (c12.sc_uploads, 3), (c12.sc_mixed, 4), (sc_evict_stalled, 6 if store == "dir" else 2), (sc_children, 3), (sc_tag_churn, 2), (sc_readonly_first_load, 2 if store == "dir" else 0), (sc_session_overlap, 3)):
                for _ in range(n):
                    cases.append(f(rng, len(cases) + 1, store))
    for j, c in enumerate(cases):
        if j % 2:
            c["conf"] = dict(c["conf"], debuglog=True)          # what the log statements read is part of the program
    logp = os.path.join(ctx.work, "race.log")
    for f in glob.glob(logp + ".*"):
        os.remove(f)
    os.environ["VERIF_STEP_TIMEOUT_MS"] = "15000"
    try:
        iouts = run_api(ctx, binp, cases, name="race", workers=6, race_log=logp)
    finally:
        os.environ.pop("VERIF_STEP_TIMEOUT_MS", None)
    text = ""
    for f in sorted(glob.glob(logp + ".*")):
        text += open(f, errors="replace").read() + "\n"
    reports = parse_reports(text)
    seen = {}
    for sig, rep in reports:
        seen.setdefault(sig, []).append(rep)
    for sig, reps_ in sorted(seen.items()):
        ctx.violation("data race between %s (%d report(s) in this run)" % (sig, len(reps_)),
                      dict(report=reps_[0], workload="concurrent workloads of lib/c11.py and lib/c12.py on a -race build", seed=ctx.seed),
                      "C13:race:%s" % sig)
    if not ok_props:
        ctx.violation("proof obligations of Props_C13.v no longer check (lockset discipline on the regenerated access table)",
                      dict(theorem_file="coq/Props_C13.v", log=plog[-2500:]), "C13:proof", nofail=not ctx.violations)
    ctx.coverage.update(dict(evaluations=len(cases), distinct_nontrivial=len(cases),
                             rule="concurrent workloads (client threads, ticker, cache timers, eviction goroutines, Close) on a server built with -race; non-trivial = every case",
                             race_reports=len(reports), distinct_races=len(seen), traces_validated_against_impl=len(cases),
                             correspondence_mismatches=0 if ok_props else 1, exhaustive=False))
    ctx.assumptions = ["the race detector observes the executions that happen: it is the search for a failing execution, the lockset theorem over the regenerated access table is the argument for all executions",
                       "reports whose stacks lie only in the test driver are ignored"]
