"""C13 - concurrent use of one server is free of data races.
Theorems: coq/Props_C13.v - the lockset discipline of coq/Access.v evaluated on the table of shared-field accesses that
harness/gofacts regenerates from the source on every run (Gen_Access.v): every field of the shared structures that is
written after construction is only read or written while the mutex of its structure is held.
Search for a failing execution: the concurrent workloads of C11 and C12 (client threads on one repository, uploads racing
expiry and eviction, traffic against a running collection ticker, Close racing the ticker) on a server built with the Go
race detector; every report whose stacks lie in olareg code is a violation, identified by the pair of functions."""
import glob
import json
import os
import re

from api import *
import c11
import c12

LEVEL = "proof"


def parse_reports(text):
    """[(signature, report text)] for the race reports that involve olareg code (not only the test driver)"""
    out = []
    for rep in re.split(r"={10,}", text):
        if "DATA RACE" not in rep:
            continue
        blocks = re.split(r"\n\n", rep.strip())
        tops = []
        for b in blocks:
            if re.match(r"\s*(Write|Read|Previous write|Previous read)", b.strip()):
                lines = [l.strip() for l in b.split("\n")[1:] if l.strip()]
                funcs = []
                for fl, loc in zip(lines[0::2], lines[1::2]):
                    if "olareg" in fl and "verif_" not in loc and "_test.go" not in loc:
                        funcs.append(re.sub(r"\(\)$", "", fl).split("/")[-1])
                tops.append(funcs[0] if funcs else "?")
        if not tops or all(t == "?" for t in tops):
            continue
        sig = " / ".join(sorted(set(tops)))
        out.append((sig, rep.strip()[:5000]))
    return out


def run(ctx):
    ok_build, blog = ctx.coq_build()
    ok_props, plog = ctx.coq_props() if ok_build else (False, blog)
    binp = api_binary(ctx, race=True)
    rng = ctx.rng
    reps = 1 if ctx.tier == "quick" else 20
    cases = []
    for _ in range(reps):
        for i in range(18):
            cases.append(c11.gen_case(rng, len(cases) + 1, ("mem", "dir", "memdir")[i % 3]))
        for store in ("mem", "dir"):
            for f, n in ((c12.sc_waiter, 2), (c12.sc_close_ticker, 1), (c12.sc_uploads, 3), (c12.sc_mixed, 4)):
                for _ in range(n):
                    cases.append(f(rng, len(cases) + 1, store))
    logp = os.path.join(ctx.work, "race.log")
    for f in glob.glob(logp + ".*"):
        os.remove(f)
    os.environ["VERIF_STEP_TIMEOUT_MS"] = "15000"
    try:
        iouts = run_api(ctx, binp, cases, name="race", workers=6, race_log=logp)
    finally:
        os.environ.pop("VERIF_STEP_TIMEOUT_MS", None)
    text = ""
    for f in sorted(glob.glob(logp + ".*")):
        text += open(f, errors="replace").read() + "\n"
    reports = parse_reports(text)
    seen = {}
    for sig, rep in reports:
        seen.setdefault(sig, []).append(rep)
    for sig, reps_ in sorted(seen.items()):
        ctx.violation("data race between %s (%d report(s) in this run)" % (sig, len(reps_)),
                      dict(report=reps_[0], workload="concurrent workloads of lib/c11.py and lib/c12.py on a -race build", seed=ctx.seed),
                      "C13:race:%s" % sig)
    if not ok_props:
        ctx.violation("proof obligations of Props_C13.v no longer check (lockset discipline on the regenerated access table)",
                      dict(theorem_file="coq/Props_C13.v", log=plog[-2500:]), "C13:proof", nofail=not ctx.violations)
    ctx.coverage.update(dict(evaluations=len(cases), distinct_nontrivial=len(cases),
                             rule="concurrent workloads (client threads, ticker, cache timers, eviction goroutines, Close) on a server built with -race; non-trivial = every case",
                             race_reports=len(reports), distinct_races=len(seen), traces_validated_against_impl=len(cases),
                             correspondence_mismatches=0 if ok_props else 1, exhaustive=False))
    ctx.assumptions = ["the race detector observes the executions that happen: it is the search for a failing execution, the lockset theorem over the regenerated access table is the argument for all executions",
                       "reports whose stacks lie only in the test driver are ignored"]
