"""C18 — the repository index keeps its invariants under any insert/remove sequence.
Theorems: coq/Props_C18.v over coq/Index.v.  Tie: differential run of the same
operation sequences on the real types.Index (in-package driver) and on the
model (vm_compute), plus the direct oracle (the invariants evaluated on the
implementation's own states)."""
import itertools
import json
import os

from common import *

REFNAME = "org.opencontainers.image.ref.name"
SUBJ = "org.olareg.referrer.subject"
MT_IMG = "application/vnd.oci.image.manifest.v1+json"
MT_IDX = "application/vnd.oci.image.index.v1+json"

DIGS = ["sha256:" + c * 64 for c in "abcd"] + ["sha512:" + "e" * 128]
TAGS = ["t1", "t2", "v3"]
BADQ = ["", "sha256:xyz", "not a tag!", "sha256:" + "f" * 64]


def mk(dig, ann=None, mt=MT_IMG, size=None, at=""):
    return dict(mt=mt, dig=dig, size=(len(dig) if size is None else size), ann=ann, at=at)


def gen_ann(rng, ndig, ntag):
    r = rng.random()
    t = rng.choice(TAGS[:ntag])
    s = rng.choice(DIGS[:ndig])
    if r < 0.22:
        return None
    if r < 0.30:
        return {}
    if r < 0.62:
        return {REFNAME: t}
    if r < 0.82:
        return {SUBJ: s}
    if r < 0.88:
        return {REFNAME: t, SUBJ: s}
    if r < 0.94:
        return {"other": "x"}
    return {REFNAME: t, "other": "x"}


def gen_case(rng, cid, maxlen, ndig, ntag, universe):
    """universe:
       'api'    - descriptor shapes the registry itself produces, digests keep one role
                  (manifest digests vs referrers-response digests are disjoint)
       'shared' - the property's universe (tag / subject / neither; rm by digest, digest+tag,
                  tag alone, subject alone) with digests shared between roles
       'beyond' - also both annotations at once, foreign annotations, emptied maps, rm by
                  digest+subject: outside the property's universe, used for the
                  correspondence and the no-panic clause only"""
    ops = []
    n = rng.randint(1, maxlen)
    mdigs = DIGS[:ndig]
    rdigs = mdigs
    if universe == "api":
        k = max(1, ndig // 2)
        rdigs, mdigs = DIGS[:k], DIGS[k:ndig] or DIGS[k:k + 1]
    for _ in range(n):
        r = rng.random()
        if r < 0.55:
            q = rng.random()
            if universe == "beyond":
                dig = rng.choice(mdigs)
                ann = gen_ann(rng, ndig, ntag)
            elif q < 0.3:
                dig, ann = rng.choice(mdigs), None
            elif q < 0.75:
                dig, ann = rng.choice(mdigs), {REFNAME: rng.choice(TAGS[:ntag])}
            else:
                dig, ann = rng.choice(rdigs), {SUBJ: rng.choice(DIGS[:ndig])}
            children = None
            if rng.random() < 0.3:
                # (an index lists manifests and, now and then, plain blobs: descriptors of another media type are not children)
                children = [mk(rng.choice(mdigs), None if (universe != "beyond" or rng.random() < 0.8) else {"k": "v"},
                               mt=(MT_IMG if rng.random() < 0.75 else rng.choice(["application/octet-stream", "application/vnd.oci.image.layer.v1.tar+gzip"])))
                            for _ in range(rng.randint(0, 3))]
            ops.append(dict(op="add", d=mk(dig, ann, mt=MT_IDX if (ann and SUBJ in ann) else MT_IMG),
                            children=children, copy=rng.random() < 0.3))
        elif r < 0.92:
            q = rng.random()
            dig = rng.choice(DIGS[:ndig])
            if q < 0.35:
                d = mk(dig)
            elif q < 0.7:
                d = mk(rng.choice(mdigs), {REFNAME: rng.choice(TAGS[:ntag])})
            elif q < 0.8:
                d = mk("", {REFNAME: rng.choice(TAGS[:ntag])})
            elif q < 0.9:
                d = mk("", {SUBJ: rng.choice(DIGS[:ndig])})
            elif universe != "beyond":
                d = mk(dig)
            elif q < 0.95:
                d = mk(dig, {SUBJ: rng.choice(DIGS[:ndig])})
            else:
                d = mk("", None)
            ops.append(dict(op="rm", d=d, children=None, copy=rng.random() < 0.3))
        else:
            ops.append(dict(op="addchildren", d=mk(""), copy=False,
                            children=[mk(rng.choice(mdigs)) for _ in range(rng.randint(0, 2))]))
    return dict(id=cid, ops=ops, queries=DIGS[:ndig] + TAGS[:ntag] + BADQ[:2],
                annq=[[SUBJ, ""]] + [[SUBJ, d] for d in DIGS[:2]] + [[REFNAME, TAGS[0]], ["other", ""]],
                universe=universe)


def enum_cases(start_id, depth):
    """Exhaustive small scope: all sequences of [depth] ops over 2 digests, 2 tags, 1 subject."""
    digs, tags = DIGS[:2], TAGS[:2]
    alpha = []
    for d in digs:
        alpha.append(dict(op="add", d=mk(d), children=None, copy=False))
        for t in tags:
            alpha.append(dict(op="add", d=mk(d, {REFNAME: t}), children=None, copy=False))
            alpha.append(dict(op="rm", d=mk(d, {REFNAME: t}), children=None, copy=False))
        alpha.append(dict(op="add", d=mk(d, {SUBJ: digs[0]}, mt=MT_IDX), children=None, copy=False))
        alpha.append(dict(op="add", d=mk(d, {REFNAME: tags[0]}), children=[mk(digs[0])], copy=False))
        alpha.append(dict(op="rm", d=mk(d), children=None, copy=False))
    cid = start_id
    for seq in itertools.product(alpha, repeat=depth):
        yield dict(id=cid, ops=list(seq), queries=digs + tags, annq=[[SUBJ, ""], [SUBJ, digs[0]]],
                   universe='shared')
        cid += 1


def shuffle_cases(start_id, depth):
    """Exhaustive tails after the prefixes that put one manifest under two tags next to another manifest: all sequences of
    [depth] operations among tag removals, removals by digest (which move the last entry into the gap) and pushes again.
    This is where the order of the entries of one digest matters."""
    X, A = DIGS[0], DIGS[1]
    t, u = TAGS[0], TAGS[1]
    add = lambda d, ann=None: dict(op="add", d=mk(d, ann), children=None, copy=False)
    rm = lambda d, ann=None: dict(op="rm", d=mk(d, ann), children=None, copy=False)
    resp = lambda d, s_: dict(op="add", d=mk(d, {SUBJ: s_}, mt=MT_IDX), children=None, copy=False)
    alpha = [rm(A, {REFNAME: t}), rm(A, {REFNAME: u}), rm(X), rm(A), add(A, {REFNAME: t}), add(A, {REFNAME: u}), add(A), add(X), rm("", {REFNAME: t})]
    prefixes = [[add(X), add(A, {REFNAME: t}), add(A, {REFNAME: u})], [add(A, {REFNAME: t}), add(X), add(A, {REFNAME: u})],
                [add(A, {REFNAME: t}), add(A, {REFNAME: u}), add(X)]]
    if depth >= 3:
        # the same with a referrers response in place of one of the tags (the digest of a response listed as response, under a
        # tag and bare)
        S = DIGS[2]
        alpha2 = [rm(A, {REFNAME: t}), rm(X), rm(A), add(A, {REFNAME: t}), resp(A, S), add(A), add(X), rm("", {SUBJ: S})]
        for pre in ([add(X), resp(A, S), add(A, {REFNAME: t})], [add(X), add(A, {REFNAME: t}), resp(A, S)], [resp(A, S), add(X), add(A, {REFNAME: t})]):
            for seq in itertools.product(alpha2, repeat=3):
                yield dict(id=start_id, ops=[dict(o) for o in pre] + [dict(o) for o in seq], queries=[X, A, t], annq=[[SUBJ, ""], [SUBJ, S], [REFNAME, t]], universe='shared')
                start_id += 1
    cid = start_id
    for pre in prefixes:
        for seq in itertools.product(alpha, repeat=depth):
            yield dict(id=cid, ops=[dict(o) for o in pre] + [dict(o) for o in seq], queries=[X, A, t, u], annq=[[SUBJ, ""], [REFNAME, t]], universe='shared')
            cid += 1


def prefix_cases(rng, start_id, n):
    """annotation values one of which is a proper prefix of the other (tags v1 / v1.2, subjects that share their first
    characters): a lookup by annotation finds the entry with exactly that value"""
    tags = ["v1", "v1.2", "v1.2.3", "v"]
    subs = [DIGS[0], DIGS[0][:40], DIGS[1]]
    out = []
    for i in range(n):
        ops = []
        for _ in range(rng.randrange(2, 7)):
            r = rng.random()
            d = rng.choice(DIGS[:4])
            if r < 0.5:
                ops.append(dict(op="add", d=mk(d, {REFNAME: rng.choice(tags)}), children=None, copy=False))
            elif r < 0.7:
                ops.append(dict(op="add", d=mk(d, {SUBJ: rng.choice(subs)}, mt=MT_IDX), children=None, copy=False))
            elif r < 0.85:
                ops.append(dict(op="rm", d=mk("", {REFNAME: rng.choice(tags)}), children=None, copy=False))
            else:
                ops.append(dict(op="rm", d=mk(d, {REFNAME: rng.choice(tags)}), children=None, copy=False))
        out.append(dict(id=start_id + i, ops=ops, queries=DIGS[:2] + tags, annq=[[REFNAME, t_] for t_ in tags] + [[SUBJ, s_] for s_ in subs] + [[SUBJ, ""]], universe='shared'))
    return out


# ---- direct oracle on the implementation's states ---------------------------------------
def tag_of(d):
    return (d["ann"] or {}).get(REFNAME, "")


def subj_of(d):
    return (d["ann"] or {}).get(SUBJ, "")


def oracle(ctx, case, out):
    """Evaluate the clauses of C18 on what the real types.Index did."""
    uni = case.get("universe", "shared")
    _v = ctx.violation

    class _C:
        def violation(self, what, hist, sig):
            # outside the property's universe only a panic counts
            if uni == "beyond" and sig != "C18:panic":
                return
            _v("[%s] %s" % (uni, what), hist, sig + ("" if sig == "C18:panic" else "/" + uni))
    ctx = _C()
    tagmap = {}
    prev_top = []
    recorded = set()      # digests handed to AddChildren and neither removed by digest nor inserted at the top level since
    for k, st in enumerate(out["states"]):
        op = case["ops"][k]
        hist = dict(case=dict(case, ops=case["ops"][:k + 1]), state=st)
        if st.get("panic"):
            ctx.violation("types.Index panics: %s" % st["panic"], hist, "C18:panic")
            return
        if not st.get("copy_ok", True):
            ctx.violation("mutating a Copy() changed the original index", hist, "C18:copy-aliased")
        top, child = st["top"], st["child"]
        # specification bookkeeping (last-writer-wins tag map)
        if op["op"] == "add":
            t = tag_of(op["d"])
            if t:
                tagmap[t] = op["d"]["dig"]
        elif op["op"] == "rm":
            t, dg = tag_of(op["d"]), op["d"]["dig"]
            if dg and t:
                if tagmap.get(t) == dg:
                    del tagmap[t]
            elif dg:
                for x in [x for x, v in tagmap.items() if v == dg]:
                    del tagmap[x]
            elif t:
                tagmap.pop(t, None)
        # I1 a tag names at most one descriptor
        seen = {}
        for d in top:
            t = tag_of(d)
            if t:
                seen.setdefault(t, []).append(d["dig"])
        for t, ds in seen.items():
            if len(set(ds)) > 1:
                ctx.violation("tag %s names two digests" % t, hist, "C18:tag-two-digests")
            elif len(ds) > 1:
                ctx.violation("tag %s listed on %d entries of one digest" % (t, len(ds)), hist,
                              "C18:tag-duplicate-entry")
        # I2 lookup by tag returns the last insertion
        for qi, q in enumerate(case["queries"]):
            if q in TAGS:
                got = st["get"][qi]
                want = tagmap.get(q)
                if (got["dig"] if got else None) != want:
                    ctx.violation("lookup of tag %s gives %s, last insertion was %s"
                                  % (q, got["dig"] if got else None, want), hist, "C18:tag-lookup")
        # I2' a lookup by annotation finds an entry whose annotation has exactly that value (any value when none is asked for),
        #     and finds one whenever the top level has one
        for qi, (key_, val_) in enumerate(case["annq"]):
            got = st["getann"][qi] if qi < len(st.get("getann") or []) else None
            have = [d for d in top if (d["ann"] or {}).get(key_) is not None and (val_ == "" or (d["ann"] or {}).get(key_) == val_)]
            if got is not None and val_ != "" and (got["ann"] or {}).get(key_) != val_:
                ctx.violation("lookup by annotation %s = %r gives an entry whose value is %r" % (key_.rsplit(".", 1)[-1], val_, (got["ann"] or {}).get(key_)), hist, "C18:annotation-lookup")
            elif (got is None) != (not have):
                ctx.violation("lookup by annotation %s = %r %s although the top level %s" % (key_.rsplit(".", 1)[-1], val_, "fails" if got is None else "succeeds", "has such an entry" if have else "has none"), hist, "C18:annotation-lookup")
        # I3 a subject has at most one referrers response
        subs = [subj_of(d) for d in top if subj_of(d)]
        if len(subs) != len(set(subs)):
            sig = "C18:subject-two-responses"
            ctx.violation("a subject has two referrers responses", hist, sig)
        # I4 an untagged digest is listed at most once
        un = [d["dig"] for d in top if not tag_of(d) and not subj_of(d)]
        if len(un) != len(set(un)):
            nil_and_empty = any(d["ann"] is None for d in top if d["dig"] in un) and \
                any(d["ann"] == {} for d in top if d["dig"] in un)
            ctx.violation("an untagged digest is listed twice", hist, "C18:untagged-twice")
        # I5 lookup by digest succeeds exactly for digests at top level or children
        present = {d["dig"] for d in top} | {d["dig"] for d in child}
        for qi, q in enumerate(case["queries"]):
            if q.startswith("sha") and len(q) > 20:
                got = st["get"][qi] is not None
                if got != (q in present):
                    sig = "C18:lookup-empty-top" if (not top and q in present) else "C18:lookup-digest"
                    ctx.violation("lookup by digest %s = %s but present = %s" % (q[:12], got, q in present),
                                  hist, sig)
        # I5' a digest recorded through AddChildren is found until it is removed, whatever else is listed or removed meanwhile
        if op["op"] == "addchildren":
            recorded |= {c["dig"] for c in (op.get("children") or []) if c["dig"]}
        elif op["op"] == "add" and op.get("children"):
            # the children option: a child listed as a manifest that is not at the top level is (or becomes) a recorded child,
            # wherever it stands in the list
            for c in op["children"]:
                if c["dig"] and c["dig"] != op["d"]["dig"] and c["mt"] in (MT_IMG, MT_IDX) and not any(d_["dig"] == c["dig"] for d_ in prev_top):
                    recorded.add(c["dig"])
        if op["op"] in ("rm", "add") and op["d"]["dig"]:
            # removed by digest - or listed at the top level from now on (AddDesc moves a child entry up), where removals by tag apply
            recorded.discard(op["d"]["dig"])
        for qi, q in enumerate(case["queries"]):
            if q in recorded and st["get"][qi] is None:
                ctx.violation("lookup by digest %s fails although it was recorded as a child and never removed" % q[:12], hist, "C18:recorded-child-lost")
        # I6 / I7
        if op["op"] == "rm":
            t, dg = tag_of(op["d"]), op["d"]["dig"]
            if dg and t and any(d["dig"] == dg for d in prev_top) and not any(d["dig"] == dg for d in top):
                ctx.violation("removing a tag made the digest unreachable", hist, "C18:untag-loses-digest")
            if dg and not t and dg in present:
                ctx.violation("removing a digest left a reference to it", hist, "C18:rm-digest-left")
            if dg and not t and dg in tagmap.values():
                ctx.violation("removing a digest left a tag on it", hist, "C18:rm-digest-left-tag")
        prev_top = top


# ---- Coq case printing -------------------------------------------------------------------
def c_ann(a):
    if a is None:
        return "None"
    return "(Some %s)" % clist("(%s, %s)" % (cstr(k), cstr(v)) for k, v in sorted(a.items()))


def c_desc(d):
    return "(mkD %s %s %s %s %s)" % (cstr(d["mt"]), cstr(d["dig"]), cz(d["size"]), c_ann(d["ann"]), cstr(d["at"]))


def c_op(o):
    if o["op"] == "add":
        return "(OAdd %s %s)" % (c_desc(o["d"]), clist(c_desc(c) for c in (o["children"] or [])))
    if o["op"] == "rm":
        return "(ORm %s)" % c_desc(o["d"])
    return "(OAddChildren %s)" % clist(c_desc(c) for c in (o["children"] or []))


def c_obs(st):
    if st.get("panic"):
        return "(mkObs true [] [] [] [])"
    return "(mkObs false %s %s %s %s)" % (
        clist(c_desc(d) for d in st["top"]), clist(c_desc(d) for d in st["child"]),
        clist(copt(c_desc(d) if d else None) for d in st["get"]),
        clist(copt(c_desc(d) if d else None) for d in st["getann"]))


def c_case(case, out):
    return "(mkCase %s %s %s %s %s)" % (
        cnat(case["id"]), clist(c_op(o) for o in case["ops"]), clist(cstr(q) for q in case["queries"]),
        clist("(%s, %s)" % (cstr(a), cstr(b)) for a, b in case["annq"]),
        clist(c_obs(st) for st in out["states"]))


def s_ann(a):
    if a is None:
        return "nil"
    return sl(*[sl(sx(k), sx(v)) for k, v in sorted(a.items())])


def s_desc(d):
    return sl("d", sx(d["mt"]), sx(d["dig"]), str(d["size"]), s_ann(d["ann"]), sx(d["at"]))


def s_op(o):
    if o["op"] == "add":
        return sl("add", s_desc(o["d"]), sl(*[s_desc(c) for c in (o["children"] or [])]))
    if o["op"] == "rm":
        return sl("rm", s_desc(o["d"]))
    return sl("addchildren", sl(*[s_desc(c) for c in (o["children"] or [])]))


def s_case(c):
    return sl("case", str(c["id"]), sl(*[s_op(o) for o in c["ops"]]), sl(*[sx(q) for q in c["queries"]]),
              sl(*[sl(sx(a), sx(b)) for a, b in c["annq"]]))


def canon_state(st):
    """Projection compared between model and implementation: multisets of entries
    (not their order) and the answers to the lookups."""
    if st.get("panic"):
        return ("panic",)
    key = lambda d: json.dumps(d, sort_keys=True)
    return (sorted(key(d) for d in st["top"]), sorted(key(d) for d in st["child"]),
            [key(d) for d in st["get"]], [key(d) for d in st["getann"]])


def model_compare(ctx, cases, outs):
    """Returns list of (case id, first differing step) where model and implementation differ."""
    mouts = model_run(ctx, "c18", [s_case(c) for c in cases], "c18")
    bad = []
    for mo in mouts:
        io = outs[mo["id"]]
        ms, is_ = mo["states"], io["states"]
        if len(ms) != len(is_):
            bad.append((mo["id"], min(len(ms), len(is_))))
            continue
        for k in range(len(ms)):
            if canon_state(ms[k]) != canon_state(is_[k]):
                bad.append((mo["id"], k))
                break
    ctx.model_outs = {mo["id"]: mo for mo in mouts}
    return bad


def vm_sample(ctx, cases, outs, n=6):
    """Cross-check of extraction: a few small cases re-evaluated inside Coq (vm_compute)."""
    small = [c for c in cases if len(c["ops"]) <= 4][:n]
    if not small:
        return 0, []
    body = "From Olareg Require Import Base Index Corr_C18.\nOpen Scope string_scope.\n"
    body += "Definition cases : list c18case := [\n" + ";\n".join(c_case(c, outs[c["id"]]) for c in small) + "].\n"
    body += "Definition M := Eval vm_compute in c18_mismatches cases.\nPrint M.\n"
    rc, out = ctx.coq_eval("c18_sample", body)
    got = parse_coq_natlist(out, "M")
    if rc != 0 or got is None:
        raise BuildError("coqc failed on generated cases:\n" + out[-2000:])
    return len(small), got


def run_impl(ctx, binp, cases, name):
    cf = os.path.join(ctx.work, name + ".cases.json")
    of = os.path.join(ctx.work, name + ".out.jsonl")
    json.dump(cases, open(cf, "w"))
    env = dict(os.environ, VERIF_CASES=cf, VERIF_OUT=of)
    rc, out = sh([binp, "-test.run", "TestVerifDriver", "-test.count=1"], env=env, timeout=1800)
    if rc != 0:
        raise BuildError("types driver failed:\n" + out[-2000:])
    outs = {}
    for line in open(of):
        o = json.loads(line)
        outs[o["id"]] = o
    return outs


def run(ctx):
    ok_build, blog = ctx.coq_build()
    ok_props, plog = ctx.coq_props() if ok_build else (False, blog)
    binp = go_test_binary(ctx, "types", {"verif_driver_test.go": os.path.join(VERIF, "harness/inpkg/types_driver_test.go")}, "types.test")
    cases = []
    # corpus first
    cdir = os.path.join(VERIF, "corpus", "C18")
    if os.path.isdir(cdir):
        for fn in sorted(os.listdir(cdir)):
            c = json.load(open(os.path.join(cdir, fn)))
            c["id"] = len(cases)
            cases.append(c)
    ncorpus = len(cases)
    if ctx.replay:
        r = json.load(open(ctx.replay))
        c = r["replay"]["case"] if "replay" in r else r
        c["id"] = 0
        cases = [c]
    else:
        nrand = 3000 if ctx.tier == "quick" else 60000
        for k in range(nrand):
            big = k % 3 == 0
            cases.append(gen_case(ctx.rng, len(cases), 20 if big else 10, 5 if big else 3, 3 if big else 2,
                                  universe=("api", "shared", "beyond")[k % 3 if k % 9 else 0]))
        cases += prefix_cases(ctx.rng, len(cases), 300 if ctx.tier == "quick" else 6000)
        if ctx.tier == "thorough":
            cases += list(enum_cases(len(cases), 3))
            cases += list(shuffle_cases(len(cases), 4))
        else:
            cases += list(enum_cases(len(cases), 2))
            cases += list(shuffle_cases(len(cases), 3))
    outs = run_impl(ctx, binp, cases, "c18")
    for c in cases:
        oracle(ctx, c, outs[c["id"]])
    bad = model_compare(ctx, cases, outs)
    nvm, vmbad = vm_sample(ctx, [c for c in cases if c["id"] not in {b[0] for b in bad}], outs)
    bad += [(i, -1) for i in vmbad]
    nontriv = set()
    opkinds = {}
    for c in cases:
        key = json.dumps(c["ops"], sort_keys=True)
        if len(c["ops"]) >= 2:
            nontriv.add(key)
        for o in c["ops"]:
            k = o["op"] + ("+children" if o.get("children") else "") + ("/" + ",".join(sorted((o["d"]["ann"] or {}).keys())).replace(REFNAME, "tag").replace(SUBJ, "subject") if o["op"] != "addchildren" else "")
            opkinds[k] = opkinds.get(k, 0) + 1
    for i, k in bad[:3]:
        c = next(c for c in cases if c["id"] == i)
        ctx.violation("correspondence: model Index.v and types.Index disagree on case %d at step %d (%d cases in total)" % (i, k, len(bad)),
                      dict(case=dict(c, ops=c["ops"][:k + 1] if k >= 0 else c["ops"]), impl=outs[i]["states"][k] if k >= 0 else None,
                           model=ctx.model_outs[i]["states"][k] if 0 <= k < len(ctx.model_outs[i]["states"]) else None,
                           note="correspondence between coq/Index.v (extracted) and types.Index"),
                      "C18:corr", nofail=not ctx.violations)
    if not ok_props:
        ctx.violation("proof obligations of Props_C18.v no longer check", dict(theorem_file="coq/Props_C18.v", log=plog[-1500:]),
                      "C18:proof", nofail=not ctx.violations)
    ctx.coverage.update(dict(
        evaluations=len(cases), distinct_nontrivial=len(nontriv),
        rule="operation sequences on types.Index (corpus %d, random structured + adversarial annotation shapes, exhaustive depth-%d over 2 digests x 2 tags x 1 subject, exhaustive tails of 9 operations after 3 two-tag prefixes); non-trivial = at least 2 operations, distinct by operation list"
             % (ncorpus, 3 if ctx.tier == "thorough" else 2),
        traces_validated_against_impl=len(cases) - len(bad),
        correspondence_mismatches=len(bad),
        op_distribution=opkinds,
        vm_compute_cross_checked=nvm,
        states_checked=sum(len(o["states"]) for o in outs.values()),
        exhaustive=False))
    ctx.samples = [cases[ncorpus]["ops"][:4]] if len(cases) > ncorpus else [cases[0]["ops"][:4]]
    ctx.assumptions = [
        "model = coq/Index.v (hand-written mirror of types/manifest.go AddDesc/RmDesc/GetDesc/GetByAnnotation/AddChildren); tie = differential run on every state",
        "Copy independence is checked on the implementation only (a pure model has no aliasing)",
        "go-digest Parse/Validate modelled by Index.dvalid (sha256/384/512 + lower-case hex of the right length)"]
