"""C14 - read-only stores and disabled APIs never change anything.
Theorems: coq/Props_C14.v (read-only: no client request changes the state, mutating requests are refused;
disabled APIs: refused before any store action).
Tie: differential histories + the direct oracle: a recursive snapshot (names, sizes, content hashes, mtimes) of the
root directory is identical before and after arbitrary request sequences and Close, for a directory store opened
read-only and for a memory store layered over the directory, on content pushed earlier and on legacy / corrupt
layouts written by the harness."""
import apicheck
import oracles
from api import *
import gen
import layouts

LEVEL = "proof"
PROFILE = dict(blob=2, chunked=1.5, mount=1, image=3, index=1, artifact=2, mread=2, bread=2, tags=2, refs=2,
               mdel=1.5, bdel=1, sess=1.5, bad=0.7, interrupt=0)


def snap_key(files, with_mtime=True):
    return sorted((f["path"], f["dir"], f["size"], f.get("sha"), f["mtime"] if with_mtime and not f["dir"] else 0) for f in files)


def oracle(ctx, case, io):
    ro_reads = {}          # (probe round, index) -> what a read answered, around a pause of a read-only store with a ticker configured
    for k, (st, res) in enumerate(zip(case["steps"], io["steps"])):
        if st.get("roprobe") and not res.get("panic"):
            gid, j = st["roprobe"]
            ans = (res.get("status"), oracles.hdr(res, "Docker-Content-Digest"), res.get("b64") if st["kind"] in ("tags", "refs") else None)
            if gid == 0:
                ro_reads[j] = ans
            elif j in ro_reads and ro_reads[j] != ans:
                ctx.violation("read-only store: %s %s answered %s, and %s after a pause without any request" % (st["impl"].get("method"), st["impl"].get("path"), ro_reads[j][:2], ans[:2]),
                              oracles.hist(case, k, res), "C14:readonly-reads-changed")
                break
    frozen = None          # snapshot taken when the store became read-only / memory-over-directory
    frozen_k = None
    mode = None
    for k, (st, res) in enumerate(zip(case["steps"], io["steps"])):
        if res.get("panic"):
            continue
        kind = st["kind"]
        if kind == "freeze":
            mode = st["mode"]
            continue
        if kind == "snapshot" and mode is not None:
            cur = snap_key(res.get("files") or [])
            if frozen is None:
                frozen, frozen_k = cur, k
            elif cur != frozen:
                a, b = dict((x[0], x) for x in frozen), dict((x[0], x) for x in cur)
                diff = [(p, a.get(p), b.get(p)) for p in sorted(set(a) | set(b)) if a.get(p) != b.get(p)][:5]
                what = "created" if any(x[1] is None for x in diff) else ("deleted" if any(x[2] is None for x in diff) else "modified")
                ctx.violation("%s store %s files under its root directory: %s" % (mode, what, [d[0] for d in diff]),
                              oracles.hist(case, k, None, diff=str(diff)[:1500]), "C14:%s-%s" % (mode, what))
                frozen = cur
            continue
        if "status" not in res or st["impl"].get("op") not in ("http", None, ""):
            continue
        status = res["status"]
        conf = st.get("conf_now") or case["conf"]
        m = st["impl"].get("method")
        path = st["impl"].get("path", "")
        mut = m in ("POST", "PUT", "PATCH", "DELETE")
        if mut and status is not None and 200 <= status < 300:
            why = None
            if conf.get("ro"):
                why = "read-only storage"
            elif not conf.get("push", True) and m in ("POST", "PUT", "PATCH") :
                why = "push disabled"
            elif not conf.get("push", True) and "/blobs/uploads/" in path:
                why = "push disabled"
            elif not conf.get("delete", False) and m == "DELETE" and "/blobs/uploads/" not in path:
                why = "delete disabled"
            elif not conf.get("blobdelete", False) and m == "DELETE" and "/blobs/" in path and "/blobs/uploads/" not in path:
                why = "blob delete disabled"
            if why and mode != "memdir":
                ctx.violation("%s %s accepted (%s) with %s" % (m, path, status, why), oracles.hist(case, k, res), "C14:accepted-%s" % why.replace(" ", "-"))
        if st.get("serves") and mode is not None:
            lk, d = st["serves"]
            if status != 200 or oracles.hdr(res, "Docker-Content-Digest") != d:
                ctx.violation("%s store over a %s legacy layout does not serve tag %s (%s)" % (mode, lk, st["arg"], status),
                              oracles.hist(case, k, res), "C14:%s-not-serving-legacy-%s" % (mode, "regenerate" if lk in ("stale", "mixed", "wrongdesc", "coexist", "missing") else lk))
        if mode == "readonly" and status >= 500:
            sig = "C14:readonly-5xx"
            ctx.violation("read-only store answered %s to %s %s" % (status, m, path), oracles.hist(case, k, res), sig)


def make_cases(ctx, first):
    n, steps = (200, 30) if ctx.tier == "quick" else (5000, 45)
    rng = ctx.rng
    cases = []
    for i in range(n):
        variant = i % 5
        seed = []
        if variant in (0, 1):
            # content pushed through a writable directory store, then re-opened read-only / as memory over it
            conf = mkconf(store="dir", withsubj=False)
            w = gen.World(rng, conf, repos=["a", "a/b"], profile=PROFILE)
            w.run(steps)
            k = w.add(upload_post("a"))            # a session left open: Close leaves an empty _uploads directory
            conf2 = dict(conf, ro=True) if variant == 0 else dict(conf, store="memdir")
            mode = "readonly" if variant == 0 else "memdir"
            ticking = variant == 1 and (i // 5) % 2 == 0
            if ticking:
                # read-only memory store over the directory with a collection period configured: nothing may change what it serves
                conf2 = dict(conf2, ro=True, freq_ms=15, untagged=True, grace_ms=-1)
            w.add(dict(kind="freeze", mode=mode, impl=dict(op="restart", conf=conf2),
                       model=sl("setcfg", s_cfg(dict(conf2, store="dir"))) if variant == 0 else "(skip)"))
            w.conf = conf2
            modelled = variant == 0
            if ticking:
                for gid in (0, 1):
                    a0 = len(w.steps)
                    w.probe()
                    for j, s_ in enumerate(w.steps[a0:]):
                        s_["roprobe"] = (gid, j)
                        s_["model"] = "(skip)"
                    if gid == 0:
                        w.add(special("sleep", secs=0.4))
        elif variant in (2, 3):
            # legacy / corrupt layouts written by the harness
            conf2 = mkconf(store="dir", ro=True) if variant == 2 else mkconf(store="memdir")
            mode = "readonly" if variant == 2 else "memdir"
            expect_tags = {}
            for r in ("a", "a/b"):
                if rng.random() < 0.7:
                    L, _, tg = layouts.legacy_layout(rng, r)
                    expect_tags[r] = (L.kind, tg)
                else:
                    L = layouts.corrupt_layout(rng, r)
                seed += L.files()
            if rng.random() < 0.5:
                seed.append(dict(path="a/_uploads", dir=True))
            w = gen.World(rng, conf2, repos=["a", "a/b"], profile=PROFILE)
            w.add(dict(kind="freeze", mode=mode, impl=dict(op="sleep", secs=0), model="(skip)"))
            w.add(special("snapshot"))          # before the first request: index loading and referrer conversion come after
            for r, (lk, tg) in expect_tags.items():
                for t, d in sorted(tg.items()):
                    x = manifest_get(r, t)
                    x["serves"] = (lk, d)
                    x["model"] = "(skip)"
                    w.add(x)
            modelled = False
        else:
            # disabled APIs on a writable store
            conf2 = mkconf(store=rng.choice(["mem", "dir"]), push=rng.random() < 0.5, delete=rng.random() < 0.5, blobdelete=rng.random() < 0.5)
            if conf2["store"] == "dir" and (i // 5) % 2 == 1:
                # the registry was filled while everything was allowed, then restarted with APIs switched off: what is there can be
                # read, and named as the source of a mount, but nothing is added or removed through a disabled API
                conf = mkconf(store="dir", withsubj=False)
                w = gen.World(rng, conf, repos=["a", "a/b"], profile=PROFILE)
                w.run(steps)
                conf2 = dict(conf2, withsubj=False)
                w.add(dict(kind="restart", impl=dict(op="restart", conf=conf2), model=sl("setcfg", s_cfg(conf2))))
                w.conf = conf2
                for _ in range(6):
                    w.mount()
            else:
                conf = conf2
                w = gen.World(rng, conf2, repos=["a", "a/b"], profile=PROFILE)
            mode = None
            modelled = True
        start = len(w.steps)
        w.add(special("snapshot"))
        target = len(w.steps) + steps
        while len(w.steps) < target:
            w.run(len(w.steps) + rng.randrange(2, 8))
            w.add(special("snapshot"))
        w.probe()
        w.add(special("snapshot"))
        w.add(special("close"))
        w.add(special("snapshot"))
        for s in w.steps[start:]:
            s["conf_now"] = conf2
            if not modelled and s["kind"] != "freeze":
                s["model"] = "(skip)"
        case = dict(id=first + i, conf=(conf if variant in (0, 1, 4) else conf2), steps=w.steps, contents=sorted(w.contents), seed=seed)
        cases.append(case)
    return cases


def run(ctx):
    apicheck.run(ctx, "C14", make_cases, oracle,
                 assumptions=["the model covers read-only directory stores over content pushed through the API and disabled APIs; memory-over-directory "
                              "stores and harness-written legacy / corrupt layouts are checked by the file-system oracle only",
                              "background collection is not started by a read-only store (no ticker); Close is part of every history"])
