"""C17 - fallback-tag referrers are converted without loss, repeatably.
Theorems: coq/Props_C17.v over coq/Ingest.v (a statement-by-statement mirror of indexIngest / indexValidReferrer /
referrerListDedup on the index algebra of Index.v).
Tie: layouts written by the harness (accurate, stale, mixed-subject, missing manifests, wrong descriptors, coexisting
converted responses, sha512 subjects, several subjects) are opened with a writable directory store and with a memory
store over the directory; every read endpoint is compared with the extracted model seeded with the same layout; the
conversion is repeated (restart) and repeated after an interruption (index.json put back as it was, the blobs the first
conversion wrote left in place).  Direct oracle: the referrers API lists, per subject, exactly the listed referrers that
exist and actually name that subject; every other tag, manifest and blob is still served; index.json is marked converted."""
import base64
import json

import apicheck
import oracles
from api import *
import gen
import layouts

LEVEL = "proof"
CONVERT = "org.olareg.referrer.convert"
KINDS = ["accurate", "accurate-dup", "stale", "mixed", "wrongdesc", "coexist", "coexist2", "coexist3", "valid-plus-mixed", "two-mixed", "sha512", "missing", "two-subjects"]


def s_entry(e):
    return s_vdesc(dict(mt=e["mediaType"], dig=e["digest"], size=e["size"], ann=e.get("annotations"), at=e.get("artifactType", "")))


def seed_model(L, cmd="seed"):
    if cmd == "seed":
        return sl("seed", sx(L.repo), "false", sl(*[sl(sx(d), sx(lat(b))) for d, b in sorted(L.blobs.items())]), sl(*[s_entry(e) for e in L.entries]))
    return sl("reseed", sx(L.repo), "false", sl(*[s_entry(e) for e in L.entries]))


def reads(L, expect, tags, mark):
    st = [tag_list(L.repo)]
    for t in sorted(tags):
        st.append(manifest_get(L.repo, t))
    for e in L.entries:
        t = (e.get("annotations") or {}).get(REFNAME, "")
        if t and t not in tags:
            st.append(manifest_get(L.repo, t))          # the fallback tags themselves
    for d in sorted(L.blobs):
        st.append(blob_get(L.repo, d, head=True))
    subjects = sorted(set(expect) | {dg("sha256", b"no-such-subject")})
    for s in subjects:
        st.append(referrers(L.repo, s))
        st.append(referrers(L.repo, s, flt="application/vnd.example.sig"))
    for x in st:
        x["phase"] = mark
    return st


def make_cases(ctx, first):
    n = 96 if ctx.tier == "quick" else 3000
    rng = ctx.rng
    cases = []
    for i in range(n):
        kind = KINDS[i % len(KINDS)]
        store = "dir" if (i // len(KINDS)) % 2 == 0 else "memdir"
        conf = mkconf(store=store, withsubj=False)
        repo = rng.choice(["a", "a/b", "legacy"])
        L, expect, tags = layouts.legacy_layout(rng, repo, kind)
        steps = [dict(kind="seed", repo=repo, impl=dict(op="sleep", secs=0), model=seed_model(L))]
        steps += reads(L, expect, tags, "first")
        steps.append(special("snapshot", full=True))
        variant = rng.choice(["restart", "interrupt", "both"])
        orig_index = [f for f in L.files() if f["path"].endswith("index.json")]
        if variant in ("restart", "both"):
            steps.append(dict(kind="restart", impl=dict(op="restart"), model="(restart)" if store == "dir" else "(restart)"))
            if store == "memdir":
                steps.append(dict(kind="seed", repo=repo, impl=dict(op="sleep", secs=0), model=seed_model(L)))
            steps += reads(L, expect, tags, "again")
        if variant in ("interrupt", "both") and store == "dir":
            # the first conversion wrote its blobs but index.json is the old one: the conversion runs again
            steps.append(dict(kind="interrupt", impl=dict(op="write", files=orig_index), model="(skip)"))
            steps.append(dict(kind="restart", impl=dict(op="restart"), model=seed_model(L, "reseed")))
            steps += reads(L, expect, tags, "repeated")
            steps.append(special("snapshot", full=True))
        # the converted layout keeps working: push a new referrer through the API
        if store == "dir" and expect:
            subj = sorted(expect)[0]
            sbody = L.blobs[subj]
            art = image_manifest(desc(MT_EMPTY, b"{}"), [], subject={"mediaType": MT_OCI_M, "digest": subj, "size": len(sbody)},
                                 artifact_type="application/vnd.example.sig", annotations={"late": "1"})
            steps.append(manifest_put(repo, dg("sha256", art), art, ctype=MT_OCI_M))
            x = referrers(repo, subj)
            x["phase"] = "pushed"
            x["extra"] = dg("sha256", art)
            steps.append(x)
            L.blobs.setdefault(dg("sha256", art), art)
        case = dict(id=first + i, conf=conf, steps=steps, contents=sorted(set(L.blobs.values())), seed=L.files(),
                    expect={k: sorted(v) for k, v in expect.items()}, tags=tags, lkind=kind, repo=repo,
                    blobs=sorted(L.blobs))
        if store == "memdir":
            for s in steps:
                if s["kind"] == "restart":
                    s["model"] = "(restart)"
        cases.append(case)
    return cases


def oracle(ctx, case, io):
    expect = {k: set(v) for k, v in case["expect"].items()}
    kind = case["lkind"]
    first = {}
    for k, (st, res) in enumerate(zip(case["steps"], io["steps"])):
        if res.get("panic"):
            return
        if res.get("err", "").startswith("HANG"):
            ctx.violation("opening the %s layout did not terminate" % kind, oracles.hist(case, k, res), "C17:hang")
            return
        ph = st.get("phase")
        rep = lambda **kw: oracles.hist(case, k, res, layout=kind, **kw)
        if st["kind"] == "snapshot":
            for f in res.get("files") or []:
                if f["path"] == case["repo"] + "/index.json":
                    try:
                        idx = json.loads(base64.b64decode(f.get("b64") or ""))
                    except Exception:
                        ctx.violation("index.json does not parse after the conversion", rep(), "C17:index-unparseable")
                        return
                    if case["conf"]["store"] == "dir" and (idx.get("annotations") or {}).get(CONVERT) != "true":
                        ctx.violation("index.json of the %s layout is not marked as converted" % kind, rep(index=idx), "C17:not-marked")
                        return
            continue
        if not ph or "status" not in res:
            continue
        status = res["status"]
        body = base64.b64decode(res.get("b64") or "")
        if st["kind"] == "refs":
            subj = st["arg"]
            if status != 200:
                ctx.violation("referrers of %s answered %s after opening the %s layout" % (subj[:19], status, kind), rep(), "C17:referrers-status-%s" % kind)
                return
            try:
                got = [d["digest"] for d in (json.loads(body).get("manifests") or [])]
            except Exception:
                ctx.violation("referrers response does not parse", rep(), "C17:referrers-unparseable")
                return
            want = set(expect.get(subj, set()))
            if st.get("extra"):
                want = want | {st["extra"]}
            if st.get("filter"):
                continue            # filtered listings are compared with the model only
            if len(got) != len(set(got)):
                ctx.violation("referrers of %s lists a manifest twice after converting the %s layout: %s" % (subj[:19], kind, got), rep(), "C17:duplicate-referrer")
                return
            if set(got) != want:
                alg = subj.split(":")[0]
                sig = "C17:referrers-%s%s" % (kind, "-sha512-subject" if alg == "sha512" else "")
                ctx.violation("referrers of %s after converting the %s layout: %s, expected exactly %s" % (subj[:19], kind, sorted(x[:19] for x in got), sorted(x[:19] for x in want)),
                              rep(), sig)
                return
        elif st["kind"] == "mget" and st["arg"] in case["tags"]:
            if status != 200 or oracles.hdr(res, "Docker-Content-Digest") != case["tags"][st["arg"]]:
                ctx.violation("tag %s of the %s layout is not served after the conversion (%s)" % (st["arg"], kind, status), rep(), "C17:tag-lost-%s" % kind)
                return
        elif st["kind"] == "blobget":
            if status != 200:
                ctx.violation("blob %s of the %s layout is not served after the conversion (%s)" % (st["arg"][:19], kind, status), rep(), "C17:blob-lost")
                return
        elif st["kind"] == "tags" and status == 200:
            got = json.loads(body).get("tags") or []
            missing = [t for t in case["tags"] if t not in got]
            if missing:
                ctx.violation("tags %s of the %s layout are not listed after the conversion" % (missing, kind), rep(), "C17:tag-unlisted")
                return
        # repeatable: the same answers after converting again / after an interrupted conversion
        key = (st["kind"], st.get("arg"), st.get("filter"), st.get("head", False))
        c = canon_impl(dict(st, model=None), res, SidMap())
        if ph == "first":
            first[key] = c
        elif ph in ("again", "repeated") and key in first and first[key] != c:
            a, b = first[key], c
            diff = {x: (a.get(x), b.get(x)) for x in set(a) | set(b) if a.get(x) != b.get(x)}
            ctx.violation("%s %s answers differently after %s the conversion of the %s layout: %s" % (st["kind"], str(st.get("arg"))[:19], "repeating" if ph == "again" else "interrupting and repeating", kind, str(diff)[:300]),
                          rep(first=str(a)[:600], now=str(b)[:600]), "C17:not-repeatable-%s" % ph)
            return


def run(ctx):
    apicheck.run(ctx, "C17", make_cases, oracle,
                 assumptions=["layouts are written by the harness before the server starts; the conversion runs when the repository's index is first loaded",
                              "interruption = the state a crash leaves between the blob writes of the conversion and the write of index.json (the only publishing step): the old index.json with the new blobs; crash points inside single file operations are C09",
                              "the memory store over a directory converts in memory only (the directory is never written: C14)"])
