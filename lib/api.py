"""API-level harness shared by the request-history checks.

A *step* is a dict with the keys
  impl   - the step for the Go driver (harness/inpkg/api_driver_test.go)
  model  - the s-expression request for the extracted model (bin/modelrun reg), or "(skip)"
  kind   - request kind, meta - data for oracles
Steps are built by the helper functions below so that both sides always receive the
same request.  Responses of both sides are projected to the same observation dict
by canon_impl / canon_model before they are compared."""
import base64
import hashlib
import json
import os
import re
import urllib.parse

from common import *

MT_OCI_M = "application/vnd.oci.image.manifest.v1+json"
MT_OCI_I = "application/vnd.oci.image.index.v1+json"
MT_DOCK_M = "application/vnd.docker.distribution.manifest.v2+json"
MT_DOCK_I = "application/vnd.docker.distribution.manifest.list.v2+json"
MT_CFG = "application/vnd.oci.image.config.v1+json"
MT_LAYER = "application/vnd.oci.image.layer.v1.tar+gzip"
MT_EMPTY = "application/vnd.oci.empty.v1+json"
REFNAME = "org.opencontainers.image.ref.name"
SUBJ = "org.olareg.referrer.subject"
ALGS = ("sha256", "sha384", "sha512")
SUPPORTED = (MT_OCI_M, MT_OCI_I, MT_DOCK_M, MT_DOCK_I)


def b64(b):
    return base64.b64encode(b).decode()


def dg(alg, data):
    return alg + ":" + hashlib.new(alg, data).hexdigest()


def lat(b):
    """bytes -> str with one char per byte (what the s-expression / model strings carry)"""
    return b.decode("latin-1")


def state_token(n):
    return base64.urlsafe_b64encode(json.dumps({"offset": n}, separators=(",", ":")).encode()).decode().rstrip("=")


def raw_token(s):
    return base64.urlsafe_b64encode(s.encode()).decode().rstrip("=")


_B64URL = re.compile(r"^[A-Za-z0-9_-]*$")


def decode_state(tok):
    """What blob.go makes of ?state=: None = refused (undecodable), else the offset.
    Mirrors base64.RawURLEncoding.DecodeString + json.Unmarshal into struct{Offset int64}
    for the token shapes the generators use."""
    if tok is None:
        tok = ""
    if not _B64URL.match(tok) or len(tok) % 4 == 1:
        return None
    try:
        raw = base64.urlsafe_b64decode(tok + "=" * (-len(tok) % 4))
    except Exception:
        return None
    # Go's strict decoder rejects non-zero trailing bits; generators only build tokens with encode()
    if base64.urlsafe_b64encode(raw).decode().rstrip("=") != tok:
        return None
    try:
        v = json.loads(raw.decode("utf-8"))
    except Exception:
        return None
    if v is None:
        return 0          # json.Unmarshal of `null` into a struct is a no-op: offset stays 0
    if not isinstance(v, dict):
        return None
    off = 0
    for k, x in v.items():
        if k.lower() == "offset":
            if isinstance(x, bool) or not isinstance(x, int):
                if x is None:
                    continue
                return None
            if not (-2 ** 63 <= x < 2 ** 63):
                return None
            off = x
    return off


def desc(mt, data, alg="sha256", **extra):
    d = {"mediaType": mt, "digest": dg(alg, data), "size": len(data)}
    d.update(extra)
    return d


def jdump(o):
    return json.dumps(o, separators=(",", ":")).encode()


def image_manifest(config, layers, subject=None, artifact_type=None, annotations=None,
                   media_type=MT_OCI_M, pad=0, extra=None):
    m = {"schemaVersion": 2}
    if media_type is not None:
        m["mediaType"] = media_type
    if artifact_type:
        m["artifactType"] = artifact_type
    if config is not None:
        m["config"] = config
    m["layers"] = layers
    if subject is not None:
        m["subject"] = subject
    if annotations is not None:
        m["annotations"] = annotations
    if extra:
        m.update(extra)
    return jdump(m) + b" " * pad


def index_manifest(manifests, subject=None, artifact_type=None, annotations=None,
                   media_type=MT_OCI_I, pad=0):
    m = {"schemaVersion": 2}
    if media_type is not None:
        m["mediaType"] = media_type
    if artifact_type:
        m["artifactType"] = artifact_type
    m["manifests"] = manifests
    if subject is not None:
        m["subject"] = subject
    if annotations is not None:
        m["annotations"] = annotations
    return jdump(m) + b" " * pad


# ---- step builders -----------------------------------------------------------------------
def _fin(step):
    if step.get("model") is None:
        step["model"] = raw_model(step["impl"], step.get("rng"))
    return step


def _q(params):
    return urllib.parse.urlencode([(k, v) for k, v in params if v is not None])


def _http(method, path, query="", headers=None, body=b"", unknown=False, remote=""):
    return dict(op="http", method=method, path=path, query=query, headers=headers or {},
                b64=b64(body), unknown=unknown, remote=remote)


def raw_model(impl, rng=None):
    """the model's view of an HTTP request: method, decoded path, query parameters and the header values
    net/http parsed, as Server.serve (coq/Server.v) takes them"""
    q = urllib.parse.parse_qs(impl.get("query") or "", keep_blank_values=True)
    params = [(k, v[0]) for k, v in q.items()]
    h = {k.lower(): v for k, v in (impl.get("headers") or {}).items()}
    acc = accept_list(h.get("accept", []))
    ct = media_type_base(h["content-type"][0]) if h.get("content-type") else ""
    body = base64.b64decode(impl.get("b64") or "")
    clen = -1 if impl.get("unknown") else len(body)
    cr = h["content-range"][0] if h.get("content-range") else ""
    st = decode_state(q["state"][0]) if "state" in q else None
    return sl("raw", sx(impl["method"]), sx(impl["path"]), sl(*[sl(sx(k), sx(v)) for k, v in params]),
              sl(*[sx(a) for a in acc]), sx(ct), str(clen), sx(cr), s_range(rng),
              "nil" if st is None else str(st), sx(lat(body)))


def s_range(rng):
    return "nil" if rng is None else sl(str(rng[0]), str(rng[1]))


def blob_get(repo, d, head=False, rng=None):
    h = {"Range": ["bytes=%d-%d" % rng]} if rng else {}
    return _fin(dict(kind="blobget", repo=repo, arg=d, head=head, rng=rng,
                impl=_http("HEAD" if head else "GET", "/v2/%s/blobs/%s" % (repo, d), headers=h),
                model=None))


def blob_delete(repo, d):
    return _fin(dict(kind="blobdel", repo=repo, arg=d,
                impl=_http("DELETE", "/v2/%s/blobs/%s" % (repo, d)),
                model=None))


REPO_RE = re.compile(r"^[a-z0-9]+(?:(?:\.|_|__|-+)[a-z0-9]+)*(?:/[a-z0-9]+(?:(?:\.|_|__|-+)[a-z0-9]+)*)*$")


def upload_post(repo, mount=None, frm=None, digest=None, alg=None, body=b"", unknown=False):
    q = _q([("mount", mount), ("from", frm), ("digest", digest), ("digest-algorithm", alg)])
    from_ok = bool(frm) and REPO_RE.match(frm) is not None
    return _fin(dict(kind="upost", repo=repo, mount=mount or "", frm=frm or "", digest=digest or "", alg=alg or "", body=body,
                impl=_http("POST", "/v2/%s/blobs/uploads/" % repo, q, body=body, unknown=unknown),
                model=None))


def upload_patch(repo, sid, cr, state, body, unknown=False):
    h = {"Content-Range": [cr]} if cr else {}
    st = decode_state(state)
    return _fin(dict(kind="upatch", repo=repo, sid=sid, cr=cr or "", state=state, body=body,
                impl=_http("PATCH", "/v2/%s/blobs/uploads/%s" % (repo, sid), _q([("state", state)]), h, body, unknown),
                model=None))


def upload_put(repo, sid, cr, digest, state, body, unknown=False):
    h = {"Content-Range": [cr]} if cr else {}
    st = decode_state(state)
    return _fin(dict(kind="uput", repo=repo, sid=sid, cr=cr or "", state=state, body=body, digest=digest or "",
                impl=_http("PUT", "/v2/%s/blobs/uploads/%s" % (repo, sid), _q([("state", state), ("digest", digest)]), h, body, unknown),
                model=None))


def upload_get(repo, sid):
    return _fin(dict(kind="uget", repo=repo, sid=sid,
                impl=_http("GET", "/v2/%s/blobs/uploads/%s" % (repo, sid)),
                model=None))


def upload_delete(repo, sid):
    return _fin(dict(kind="udel", repo=repo, sid=sid,
                impl=_http("DELETE", "/v2/%s/blobs/uploads/%s" % (repo, sid)),
                model=None))


def media_type_base(s):
    return s.split(";", 1)[0].strip().lower()


def accept_list(headers):
    out = []
    for a in headers:
        for e in a.split(","):
            out.append(media_type_base(e))
    return out


def manifest_get(repo, ref, accept=(MT_OCI_M, MT_OCI_I, MT_DOCK_M, MT_DOCK_I), head=False, rng=None):
    h = {}
    if accept:
        h["Accept"] = list(accept)
    if rng:
        h["Range"] = ["bytes=%d-%d" % rng]
    return _fin(dict(kind="mget", repo=repo, arg=ref, head=head, rng=rng, accept=list(accept or []),
                impl=_http("HEAD" if head else "GET", "/v2/%s/manifests/%s" % (repo, ref), headers=h),
                model=None))


def manifest_put(repo, ref, body, ctype=None, dq=None, unknown=False):
    h = {"Content-Type": [ctype]} if ctype is not None else {}
    ct = media_type_base(ctype) if ctype is not None else ""
    clen = -1 if unknown else len(body)
    return _fin(dict(kind="mput", repo=repo, arg=ref, body=body, ctype=ct, dq=dq or "", unknown=unknown,
                impl=_http("PUT", "/v2/%s/manifests/%s" % (repo, ref), _q([("digest", dq)]), h, body, unknown),
                model=None))


def manifest_delete(repo, ref):
    return _fin(dict(kind="mdel", repo=repo, arg=ref,
                impl=_http("DELETE", "/v2/%s/manifests/%s" % (repo, ref)),
                model=None))


def tag_list(repo, n=None, last=None, head=False):
    return _fin(dict(kind="tags", repo=repo, n=n, last=last, head=head,
                impl=_http("HEAD" if head else "GET", "/v2/%s/tags/list" % repo, _q([("n", n), ("last", last)])),
                model=None))


def tag_walk(repo, n):
    """follow the Link chain of the tag listing from the start with page size n"""
    return dict(kind="tagwalk", repo=repo, n=str(n),
                impl=dict(op="follow", path="/v2/%s/tags/list" % repo, query=_q([("n", str(n))])),
                model=sl("tagwalk", sx(repo), sx(str(n))))


def referrers(repo, subject, flt=None):
    return _fin(dict(kind="refs", repo=repo, arg=subject, filter=flt or "",
                impl=_http("GET", "/v2/%s/referrers/%s" % (repo, subject), _q([("artifactType", flt)])),
                model=None))


def split(outer, at, mids):
    """deliver the body of [outer] in two parts; [mids] run on the implementation after the first [at]
    bytes were read by the handler.  The model runs the mids first, then the outer request, whose
    response is not compared (only the state afterwards is, through later requests)."""
    impl = dict(outer["impl"], mid=[m["impl"] for m in mids], split=at)
    return dict(kind="split", repo=outer.get("repo"), outer=outer, mids=mids, at=at, body=outer.get("body"),
                impl=impl, model=sl("group", *([m["model"] for m in mids] + [outer["model"]])))


def bc_script(repo, calls):
    """calls on the store's upload interface (store.BlobCreator) in a given order, sessions numbered by creation:
    dict(fn=create|session|write|verify|chalg|info|close|cancel, sess=k, alg=, digest=, data=bytes)"""
    impl_calls, mc = [], []
    for c in calls:
        ic = dict(fn=c["fn"], sess=c.get("sess", 0), alg=c.get("alg", ""), digest=c.get("digest", ""), b64=b64(c.get("data", b"")))
        impl_calls.append(ic)
        f = c["fn"]
        if f == "create":
            mc.append(sl("create", sx(c.get("alg", "")), sx(c.get("digest", ""))))
        elif f == "write":
            mc.append(sl("write", str(c["sess"]), sx(lat(c["data"]))))
        elif f == "verify":
            mc.append(sl("verify", str(c["sess"]), sx(c["digest"])))
        elif f == "chalg":
            mc.append(sl("chalg", str(c["sess"]), sx(c["alg"])))
        else:
            mc.append(sl(f, str(c["sess"])))
    return dict(kind="bc", repo=repo, calls=impl_calls, impl=dict(op="bc", repo=repo, calls=impl_calls), model=sl("bc", sx(repo), sl(*mc)))


def special(op, model="(skip)", **kw):
    """driver-only operation (gc, restart, snapshot, ...)"""
    st = dict(op=op)
    st.update(kw)
    return dict(kind=op, impl=st, model=model, **{k: v for k, v in kw.items() if k in ("repo",)})


def expire_sessions(repo):
    """every open session of the repository becomes older than the grace period and the age prune runs"""
    return [dict(kind="uploads", repo=repo, impl=dict(op="uploads", repo=repo, kind="age", secs=100000.0), model="(skip)"),
            dict(kind="expire", repo=repo, impl=dict(op="uploads", repo=repo, kind="prune_age"), model=sl("expire", sx(repo)))]


def prune_count(repo):
    return dict(kind="prunecount", repo=repo, impl=dict(op="uploads", repo=repo, kind="prune_count"),
                model=sl("prunecount", sx(repo)))


def session_count(repo):
    return dict(kind="sesscount", repo=repo, impl=dict(op="uploads", repo=repo, kind="len"), model="(skip)")


# ---- configuration ----------------------------------------------------------------------
def mkconf(store="mem", ro=False, push=True, delete=True, blobdelete=True, referrer=True,
           mlimit=4096, rlimit=4 * 1024 * 1024, **kw):
    c = dict(store=store, ro=ro, push=push, delete=delete, blobdelete=blobdelete, referrer=referrer,
             mlimit=mlimit, rlimit=rlimit)
    c.update(kw)
    return c


def s_cfg(c):
    bb = lambda x: "true" if x else "false"
    # unset switches (None) mean the documented defaults: push on, delete off, blob delete off, referrers on, writable
    return sl("cfg", "dir" if c["store"] == "dir" else "mem", bb(dflt(c["ro"], False)), bb(dflt(c["push"], True)), bb(dflt(c["delete"], False)),
              bb(dflt(c["blobdelete"], False)), bb(dflt(c["referrer"], True)), str(c["mlimit"]), str(c["rlimit"]),
              str(c.get("uploadmax") or 1000),
              bb(dflt(c.get("untagged"), False)), bb(dflt(c.get("dangling"), False)), bb(dflt(c.get("withsubj"), True)),
              str(c.get("grace_ms") or 3600000))


def dflt(v, d):
    return d if v is None else v


def gc_step(repo):
    """Repo.gc() on one repository (the directory store is made to re-read index.json first, as the ticker's
    collection does whenever the file changed since the last load)"""
    return dict(kind="gc", repo=repo, impl=dict(op="gc", repo=repo), model=sl("gc", sx(repo)))


def age_step(repo, digest, secs):
    """the blob's modification time becomes now - secs (digest "" = every blob of the repository)"""
    return dict(kind="age", repo=repo, impl=dict(op="age", repo=repo, digest=digest, secs=float(secs)),
                model=sl("age", sx(repo), sx(digest), str(int(secs * 1000))))


def restart_step():
    return dict(kind="restart", impl=dict(op="restart"), model="(restart)")


# ---- running the implementation ---------------------------------------------------------------
def fs_rewritten(ctx):
    """internal/store/dir.go with its mutating filesystem calls redirected to the counting shim (C09); the list of
    rewritten call sites is kept for the evidence"""
    out = os.path.join(ctx.work, "dir_vfs.go")
    run_gofacts()
    rc, log = sh([os.path.join(VERIF, "bin", "gofacts"), "-fsrewrite", os.path.join(REPO, "internal/store/dir.go"), out], timeout=60)
    if rc != 0:
        raise BuildError("fsrewrite failed: " + log[-800:])
    ctx.fs_sites = [l for l in log.strip().split("\n") if l and not l.startswith("WARNING")]
    return out


def api_binary(ctx, race=False, vfs=False):
    ov = {
        "verif_api_driver_test.go": os.path.join(VERIF, "harness/inpkg/api_driver_test.go"),
        "verif_conf_driver_test.go": os.path.join(VERIF, "harness/inpkg/conf_driver_test.go"),
        "internal/store/verif_hooks.go": os.path.join(VERIF, "harness/hooks/store_verif.go"),
        "internal/store/verif_vfs.go": os.path.join(VERIF, "harness/hooks/vfs_verif.go"),
        "internal/cache/verif_hooks.go": os.path.join(VERIF, "harness/hooks/cache_verif.go"),
    }
    if vfs:
        ov["internal/store/dir.go"] = fs_rewritten(ctx)
    return go_test_binary(ctx, ".", ov, "api%s%s.test" % (".vfs" if vfs else "", ".race" if race else ""), race=race)


def run_api(ctx, binp, cases, name="api", workers=8, timeout=3000, race_log=None):
    """cases: list of dict(id, conf, steps=[step...], seed=[files]).  Returns {id: out}.
    race_log: path prefix for the race detector's reports (binary built with -race); its exit status is then not an error."""
    cf = os.path.join(ctx.work, name + ".cases.jsonl")
    of = os.path.join(ctx.work, name + ".out.jsonl")
    wd = os.path.join(ctx.work, name + ".tmp")
    os.makedirs(wd, exist_ok=True)
    with open(cf, "w") as fh:
        for c in cases:
            fh.write(json.dumps(dict(id=c["id"], conf=c["conf"], seed=c.get("seed", []),
                                     steps=[s["impl"] for s in c["steps"]])) + "\n")
    env = dict(os.environ, VERIF_CASES=cf, VERIF_OUT=of, VERIF_WORKDIR=wd, VERIF_WORKERS=str(workers))
    if race_log:
        env["GORACE"] = "log_path=%s halt_on_error=0 history_size=3" % race_log
    rc, out = sh([binp, "-test.run", "TestVerifAPIDriver", "-test.count=1", "-test.timeout", "%ds" % timeout],
                 env=env, timeout=timeout + 60)
    shutil.rmtree(wd, ignore_errors=True)
    if rc != 0 and not (race_log and os.path.exists(of)):
        raise BuildError("api driver failed (rc=%d):\n%s" % (rc, out[-3000:]))
    outs = {}
    for line in open(of):
        o = json.loads(line)
        outs[o["id"]] = o
    return outs


def run_api_isolated(ctx, binp, cases, name="iso", procs=8, timeout=600):
    """every case in a driver process of its own (a case that hangs leaves goroutines, timers and held mutexes behind: the stack
    dump of a stalled step then shows that case only)"""
    import concurrent.futures
    outs = {}

    def one(c):
        return run_api(ctx, binp, [c], name="%s.%s" % (name, c["id"]), workers=1, timeout=timeout)

    with concurrent.futures.ThreadPoolExecutor(max_workers=procs) as ex:
        for o in ex.map(one, cases):
            outs.update(o)
    for f in os.listdir(ctx.work):
        if f.startswith(name + ".") and (f.endswith(".cases.jsonl") or f.endswith(".out.jsonl")):
            try:
                os.remove(os.path.join(ctx.work, f))
            except OSError:
                pass
    return outs


# ---- views (what encoding/json makes of a body) ---------------------------------------------------
def get_views(ctx, binp, bodies):
    """bodies: iterable of bytes -> {bytes: view dict} computed by Go's encoding/json."""
    bodies = sorted(set(bodies))
    if not bodies:
        return {}
    case = dict(id=0, conf=mkconf(), steps=[dict(impl=dict(op="view", b64=b64(b))) for b in bodies])
    out = run_api(ctx, binp, [case], "views")[0]
    return {b: out["steps"][i]["view"] for i, b in enumerate(bodies)}


def s_ann(a):
    if a is None:
        return "nil"
    return sl(*[sl(sx(k), sx(v)) for k, v in sorted(a.items())])


def s_vdesc(d):
    if d is None:
        return "nil"
    return sl("d", sx(d["mt"]), sx(d["dig"]), str(d["size"]), s_ann(d["ann"]), sx(d["at"]))


def s_view(v):
    bb = lambda x: "true" if x else "false"
    return sl("view", bb(v["ok_m"]), bb(v["ok_i"]), bb(v["ok_d"]), bb(v["ok_r"]), sx(v["mt"]), sx(v["at"]),
              s_vdesc(v["config"]), sl(*[s_vdesc(d) for d in v["layers"]]),
              sl(*[s_vdesc(d) for d in v["manifests"]]), s_vdesc(v["subject"]), s_ann(v["ann"]))


def case_bodies(case):
    """every byte string of the case that the server may parse as JSON"""
    out = set()
    for s in case["steps"]:
        if "body" in s and s["body"] is not None:
            out.add(s["body"])
    for b in case.get("contents", []):
        out.add(b)
    return out


def run_model(ctx, cases, views, name="reg"):
    lines = []
    for c in cases:
        vs = [sl(sx(lat(b)), s_view(views[b])) for b in sorted(case_bodies(c))]
        lines.append(sl("case", str(c["id"]), s_cfg(c["conf"]), sl("views", sl(*vs)),
                        sl("reqs", sl(*[s["model"] for s in c["steps"]]))))
    outs = model_run(ctx, "reg", lines, name)
    return {o["id"]: o for o in outs}


# ---- canonical observations --------------------------------------------------------------------------
def _h(res, k):
    v = (res.get("headers") or {}).get(k)
    return v[0] if v else ""


def parse_errs(body):
    try:
        j = json.loads(body.decode("utf-8"))
        return [e.get("code") for e in j["errors"]], True
    except Exception:
        return [], False


def link_last(link):
    if not link:
        return ""
    m = re.match(r"^<([^>]*)>; rel=next$", link)
    if not m:
        return "?"
    q = urllib.parse.urlparse(m.group(1)).query
    return urllib.parse.parse_qs(q, keep_blank_values=True).get("last", ["?"])[0]


def dkey(d):
    a = d.get("ann")
    if a is None:
        a = d.get("annotations")
    return json.dumps(dict(mt=d.get("mt", d.get("mediaType", "")), dig=d.get("dig", d.get("digest", "")),
                           size=d.get("size", 0), at=d.get("at", d.get("artifactType", "")) or "",
                           ann=a if a else None), sort_keys=True)


class SidMap:
    """session ids -> order of first appearance"""

    def __init__(self):
        self.m = {}

    def get(self, sid):
        if sid not in self.m:
            self.m[sid] = "S%d" % len(self.m)
        return self.m[sid]


def canon_impl(step, res, sids):
    """project an implementation response to the observation compared with the model"""
    if res.get("panic"):
        return dict(panic=True)
    if step["kind"] == "tagwalk":
        sub = dict(kind="tags", head=False)
        return dict(pages=[canon_impl(sub, p, sids) for p in res["par"][0]])
    if step.get("model") == "(skip)":
        return dict(skip=True)
    if step["kind"] == "bc":
        return dict(bc=[(c.get("ok", False), (c.get("size"), c.get("digest")) if c.get("ok") and f["fn"] in ("create", "write", "verify", "chalg", "info") else None)
                        for c, f in zip(res.get("bc") or [], step["calls"])])
    if step["kind"] == "refwalk":
        import c07
        return c07.canon_walk_impl(step, res)
    if step["kind"] == "split":
        mids = (res.get("par") or [[]])[0]
        return dict(mids=[canon_impl(m, r, sids) for m, r in zip(step["mids"], mids)], nmids=len(mids))
    body = base64.b64decode(res.get("b64", "") or "")
    o = dict(panic=False, status=res["status"], errs=[], digest=_h(res, "Docker-Content-Digest"))
    kind = step["kind"]
    st = res["status"]
    if st >= 400 and body:
        o["errs"], _ = parse_errs(body)
    if kind in ("blobget", "mget") and st in (200, 206):
        o["ctype"] = _h(res, "Content-Type") if not step.get("noctype") else None
        o["body"] = None if step.get("head") else body
        o["clen"] = _h(res, "Content-Length")
    if kind == "tags" and st == 200 and not step.get("head"):
        try:
            j = json.loads(body.decode())
            o["tags"] = j["tags"]
            o["name"] = j["name"]
        except Exception:
            o["tags"] = None
        o["link"] = link_last(_h(res, "Link"))
    if kind == "refs" and st == 200:
        try:
            j = json.loads(body.decode())
            o["refs"] = sorted(dkey(d) for d in (j.get("manifests") or []))
        except Exception:
            o["refs"] = None
        o["filtered"] = _h(res, "Oci-Filters-Applied") != ""
        o["ctype"] = _h(res, "Content-Type")
    loc = _h(res, "Location")
    if kind in ("upost", "uput", "mput") and st == 201:
        o["loc"] = loc.rsplit("/", 1)[-1]
    if kind in ("upost", "upatch") and st == 202 or kind == "uget" and st == 204:
        sid = urllib.parse.urlparse(loc).path.rsplit("/", 1)[-1]
        o["loc"] = sids.get(sid)
    if kind in ("upatch", "uput", "uget"):
        o["range"] = _h(res, "Range")
    if kind == "mput" and st == 201:
        o["subject"] = _h(res, "Oci-Subject")
    return o


def canon_model(step, res, sids):
    if res.get("panic"):
        return dict(panic=True)
    if step["kind"] == "tagwalk":
        sub = dict(kind="tags", head=False)
        return dict(pages=[canon_model(sub, p, sids) for p in res["pages"]])
    if step.get("model") == "(skip)" or res.get("skip"):
        return dict(skip=True)
    if step["kind"] == "bc":
        return dict(bc=[(c.get("ok", False), (c.get("size"), c.get("digest")) if c.get("ok") and f["fn"] in ("create", "write", "verify", "chalg", "info") else None)
                        for c, f in zip(res.get("bc") or [], step["calls"])])
    if step["kind"] == "refwalk":
        return dict(panic=False, status=res["status"], errs=res["errs"], digest=res["digest"],
                    refs=sorted(dkey(d) for d in res["body"].get("refs", [])), filtered=res["filtered"], ctype=res["ctype"])
    if step["kind"] == "split":
        g = res["group"][:-1]
        return dict(mids=[canon_model(m, r, sids) for m, r in zip(step["mids"], g)], nmids=len(g))
    o = dict(panic=False, status=res["status"], errs=res["errs"], digest=res["digest"])
    kind = step["kind"]
    st = res["status"]
    b = res["body"]
    if kind in ("blobget", "mget") and st in (200, 206):
        o["ctype"] = res["ctype"] if not step.get("noctype") else None
        if b["kind"] == "blob":
            data = b["data"].encode("latin-1")
            full = len(data)
            if step.get("rng"):
                data = data[step["rng"][0]:step["rng"][1] + 1]
            o["body"] = None if step.get("head") else data
            o["clen"] = str(len(data))
        else:
            o["body"] = "resp"
            o["clen"] = "?"
    if kind == "tags" and st == 200 and not step.get("head"):
        o["tags"] = b["tags"]
        o["name"] = b["name"]
        o["link"] = res["link"]
    if kind == "refs" and st == 200:
        o["refs"] = sorted(dkey(d) for d in b["refs"])
        o["filtered"] = res["filtered"]
        o["ctype"] = res["ctype"]
    if kind in ("upost", "uput", "mput") and st == 201:
        o["loc"] = res["loc"]
    if kind in ("upost", "upatch") and st == 202 or kind == "uget" and st == 204:
        o["loc"] = sids.get(res["loc"])
    if kind in ("upatch", "uput", "uget"):
        o["range"] = res["range"]
    if kind == "mput" and st == 201:
        o["subject"] = res["subject"]
    return o


def compare_case(case, iout, mout):
    """first step at which the projected observations differ: (step index, impl obs, model obs) or None.
    A step the model does not cover ("skip") is not compared."""
    si, sm = SidMap(), SidMap()
    isteps, msteps = iout["steps"], mout["steps"]
    for k, step in enumerate(case["steps"]):
        if k >= len(isteps) or k >= len(msteps):
            return (k, isteps[k] if k < len(isteps) else "missing", msteps[k] if k < len(msteps) else "missing")
        if msteps[k].get("skip"):
            continue
        if "unknown_view" in msteps[k]:
            return (k, "n/a", dict(unknown_view=msteps[k]["unknown_view"][:80]))
        a = canon_impl(step, isteps[k], si)
        b = canon_model(step, msteps[k], sm)
        if a != b:
            da = {x: a.get(x) for x in set(a) | set(b) if a.get(x) != b.get(x)}
            db = {x: b.get(x) for x in set(a) | set(b) if a.get(x) != b.get(x)}
            return (k, da, db)
    return None


def shrink(case, still_fails, max_rounds=6):
    """delta debugging on the step list: remove chunks while [still_fails(case')] holds.
    Steps referring to $SIDk$ are renumbered by keeping removed steps as no-ops ("skip")."""
    steps = list(case["steps"])
    noop = dict(kind="noop", impl=dict(op="sleep", secs=0), model="(skip)")
    n = len(steps)
    chunk = max(1, n // 2)
    rounds = 0
    while chunk >= 1 and rounds < max_rounds * 8:
        i = 0
        changed = False
        while i < n:
            cand = steps[:i] + [noop] * min(chunk, n - i) + steps[i + chunk:]
            if any(s is not noop for s in steps[i:i + chunk]) and still_fails(dict(case, steps=cand)):
                steps = cand
                changed = True
            i += chunk
            rounds += 1
        if chunk == 1 and not changed:
            break
        chunk = max(1, chunk // 2) if not changed or chunk > 1 else 1
        if chunk == 1 and changed:
            continue
    # drop trailing no-ops
    while steps and steps[-1] is noop:
        steps.pop()
    return dict(case, steps=steps)


def replayable(case):
    """JSON-serialisable form of a case (bytes -> base64) kept in replay files / corpus"""
    def conv(x):
        if isinstance(x, bytes):
            return {"$b64": b64(x)}
        if isinstance(x, dict):
            return {k: conv(v) for k, v in x.items()}
        if isinstance(x, (list, tuple)):
            return [conv(v) for v in x]
        return x
    return conv(case)


def unreplay(x):
    if isinstance(x, dict):
        if set(x.keys()) == {"$b64"}:
            return base64.b64decode(x["$b64"])
        return {k: unreplay(v) for k, v in x.items()}
    if isinstance(x, list):
        return [unreplay(v) for v in x]
    return x
