"""Direct oracles: the clauses of the properties evaluated on the implementation's own
responses, with bookkeeping kept by the harness and independent of the Coq model."""
import base64
import hashlib
import json
import re
import urllib.parse

from api import *
import gen

FULL = [MT_OCI_M, MT_OCI_I, MT_DOCK_M, MT_DOCK_I]


def body_of(res):
    return base64.b64decode(res.get("b64", "") or "")


def hdr(res, k):
    v = (res.get("headers") or {}).get(k)
    return v[0] if v else ""


def hist(case, k, res=None, **kw):
    d = dict(case=replayable(dict(case, steps=case["steps"][:k + 1])))
    if res is not None:
        d["response"] = dict(status=res.get("status"), headers=res.get("headers"), body=body_of(res)[:300].decode("latin-1"))
    d.update(kw)
    return d


def real_hash_ok(d, data):
    a, _, h = d.partition(":")
    return a in ALGS and hashlib.new(a, data).hexdigest() == h


SID_RE = re.compile(r"^\$SID(\d+)\$$")


# ---- C01 ---------------------------------------------------------------------------------------
def c01(ctx, case, io):
    """every served body hashes to the digest it is served under; a declared digest that does not
    match the bytes received is refused with a 4xx"""
    existing = {}       # repo -> digests known to be present (for the known benign exception)
    sess1 = {}          # step index of the POST that opened a session -> bytes it has accepted
    for k, (st, res) in enumerate(zip(case["steps"], io["steps"])):
        if res.get("panic") or "status" not in res:
            continue
        kind, status = st["kind"], res["status"]
        repo = st.get("repo")
        ex = existing.setdefault(repo, set())
        if kind in ("blobget", "mget") and status in (200, 206) and not st.get("head"):
            d = hdr(res, "Docker-Content-Digest")
            body = body_of(res)
            if kind == "blobget" and d != st["arg"]:
                ctx.violation("blob served under digest header %s for request %s" % (d, st["arg"]), hist(case, k, res), "C01:digest-header")
            if kind == "mget" and gen.dvalid_py(st["arg"]) and d != st["arg"]:
                ctx.violation("manifest served under digest header %s for request %s" % (d, st["arg"]), hist(case, k, res), "C01:digest-header")
            if status == 200 and not st.get("rng"):
                if not real_hash_ok(d, body):
                    ctx.violation("served body (%d bytes) does not hash to %s" % (len(body), d), hist(case, k, res), "C01:served-hash")
            if status == 200:
                ex.add(d)
        # declared digest vs bytes received
        if kind == "upost" and st["digest"] and gen.dvalid_py(st["digest"]):
            if not real_hash_ok(st["digest"], st["body"]) and not (400 <= status < 500):
                sig = "C01:post-existing-digest-body-unverified" if (status == 201 and st["digest"] in ex) else "C01:mismatch-accepted"
                ctx.violation("monolithic POST with a digest that does not match the body answered %s" % status, hist(case, k, res), sig)
            if status == 201:
                ex.add(st["digest"])
        if kind == "mput":
            body = st["body"]
            declared = [x for x in ([st["arg"]] if not gen.is_tag_py(st["arg"]) else []) + ([st["dq"]] if st["dq"] else []) if gen.dvalid_py(x)]
            # a digest in the path overrides ?digest= (manifest.go); each declared digest that the code compares must match
            eff = st["arg"] if (not gen.is_tag_py(st["arg"])) else st["dq"]
            if eff and gen.dvalid_py(eff) and len(body) <= case["conf"]["mlimit"]:
                if not real_hash_ok(eff, body) and not (400 <= status < 500):
                    ctx.violation("manifest PUT with declared digest %s not matching the body answered %s" % (eff[:19], status), hist(case, k, res), "C01:manifest-mismatch-accepted")
            if status == 201:
                d = hdr(res, "Docker-Content-Digest")
                if not real_hash_ok(d, body):
                    ctx.violation("manifest acknowledged under %s which is not the digest of the body sent" % d, hist(case, k, res), "C01:manifest-ack-digest")
                ex.add(d)
        if kind == "upost" and status == 202:
            sess1[k] = dict(repo=repo, data=b"")
        if kind in ("upatch", "uput"):
            m_ = SID_RE.match(st["sid"])
            s_ = sess1.get(int(m_.group(1))) if m_ else None
            if s_ is not None and s_["repo"] == repo:
                if kind == "upatch" and status == 202:
                    s_["data"] += st["body"]
                if kind == "uput" and status == 201:
                    total = s_["data"] + st["body"]
                    if gen.dvalid_py(st["digest"]) and not real_hash_ok(st["digest"], total):
                        ctx.violation("upload completed (201) with declared digest %s, which the %d bytes received do not hash to" % (st["digest"][:19], len(total)),
                                      hist(case, k, res), "C01:session-mismatch-accepted")
        if kind == "uput" and status == 201:
            ex.add(st["digest"])
        if kind == "snapshot":
            for f in res.get("files") or []:
                m = re.match(r"^(.*)/blobs/(sha256|sha384|sha512)/([0-9a-f]+)$", f["path"])
                if m and not f["dir"] and "b64" in f:
                    data = base64.b64decode(f["b64"])
                    if hashlib.new(m.group(2), data).hexdigest() != m.group(3):
                        ctx.violation("file %s does not hash to its name" % f["path"], hist(case, k, None, file=f["path"]), "C01:file-hash")


# ---- C08 ---------------------------------------------------------------------------------------
def cr_start(cr):
    """start offset demanded by a Content-Range header: None = header absent, 'bad' = unusable"""
    if not cr:
        return None
    i = cr.find("-")
    if i < 1:
        return "bad"
    s = cr[:i]
    if not re.match(r"^[+-]?[0-9]+$", s):
        return "bad"
    v = int(s)
    if not (-2 ** 63 <= v < 2 ** 63):
        return "bad"
    return v


class Sess:
    def __init__(self, repo, k, expect=""):
        self.repo, self.k, self.data, self.open, self.expect, self.used = repo, k, b"", True, expect, k


def c08(ctx, case, io):
    sess = {}          # step index of the creating POST -> Sess
    maxs = case["conf"].get("uploadmax") or 1000
    def find(st):
        m = SID_RE.match(st.get("sid", ""))
        if not m:
            return None
        s = sess.get(int(m.group(1)))
        if s is None or s.repo != st["repo"]:
            return None          # unknown here: never created, or belongs to another repository
        return s
    flat = []
    for k, (st, res) in enumerate(zip(case["steps"], io["steps"])):
        if st["kind"] == "split":
            mids = (res.get("par") or [[]])[0]
            for m, r in zip(st["mids"], mids):
                flat.append((k, m, r))
            flat.append((k, dict(st["outer"], interrupted=True), res))
        else:
            flat.append((k, st, res))
    acked = set()      # (repo, digest) the registry acknowledged as stored (201)
    for k, st, res in flat:
        if res.get("panic") or ("status" not in res and st["kind"] not in ("expire", "prunecount", "sesscount", "snapshot", "restart")):
            continue
        kind, status = st["kind"], res.get("status")
        repo = st.get("repo")
        if status == 201:
            for d_ in (st.get("digest"), st.get("mount"), hdr(res, "Docker-Content-Digest")):
                if d_:
                    acked.add((repo, d_))
        if kind == "blobget" and status in (200, 206) and (repo, st["arg"]) not in acked and not case.get("seed"):
            # (no partial or refused content ever becomes a blob: what can be pulled was acknowledged by a 201)
            ctx.violation("blob %s of %s can be pulled although no push of it was ever acknowledged (content of a refused or unfinished upload became a blob)" % (st["arg"][:26], repo),
                          hist(case, k, res), "C08:unacknowledged-blob")
        if st.get("interrupted"):
            # the session was cancelled / expired while this request's body was arriving: it must not succeed
            s = find(st)
            if s is not None and not s.open and 200 <= status < 300:
                ctx.violation("%s completed with %s although its session was cancelled or expired while the body was arriving"
                              % (kind, status), hist(case, k, res), "C08:dead-session-completed")
            if s is not None:
                s.open = False
            continue
        if kind == "upost" and status == 202:
            expect = ""
            if not st["digest"] and st["mount"] and gen.dvalid_py(st["mount"]):
                expect = st["mount"]
            sess[k] = Sess(repo, k, expect)
            continue
        if kind in ("upatch", "uput", "uget", "udel"):
            s = find(st)
            live = s is not None and s.open
            if live:
                s.used = k        # every session request looks the session up, which refreshes its last use
            if not live:
                if not (400 <= status < 500):
                    why = "closed" if s is not None else "unknown in this repository"
                    ctx.violation("%s on a session that is %s answered %s" % (kind, why, status), hist(case, k, res), "C08:dead-session-used")
                continue
            size = len(s.data)
            if kind == "uget":
                want = "0-%d" % (size - 1)
                if status != 204 or hdr(res, "Range") != want:
                    ctx.violation("status query reports %s %r, %d bytes were accepted (want 204 %s)" % (status, hdr(res, "Range"), size, want),
                                  hist(case, k, res), "C08:status-range")
                loc = hdr(res, "Location")
                tok = urllib.parse.parse_qs(urllib.parse.urlparse(loc).query).get("state", [""])[0]
                if decode_state(tok) != size:
                    ctx.violation("status query hands out a state token for offset %s, %d bytes were accepted" % (decode_state(tok), size), hist(case, k, res), "C08:state-token")
                continue
            if kind == "udel":
                if status != 202:
                    ctx.violation("cancel of an open session answered %s" % status, hist(case, k, res), "C08:cancel")
                s.open = False
                continue
            start = cr_start(st["cr"])
            off = decode_state(st["state"])
            order_ok = (start is None or start == size) and off == size
            if not order_ok:
                if not (400 <= status < 500):
                    ctx.violation("%s with Content-Range %r / state offset %s accepted (%s) while %d bytes were received"
                                  % (kind, st["cr"], off, status, size), hist(case, k, res), "C08:out-of-order-accepted")
                    # resync: the implementation took the bytes
                    s.data += st["body"]
                    if kind == "uput" and status == 201:
                        s.open = False
                continue
            if kind == "upatch":
                if status != 202:
                    ctx.violation("in-order chunk refused with %s" % status, hist(case, k, res), "C08:in-order-refused")
                    continue
                s.data += st["body"]
                want = "0-%d" % (len(s.data) - 1)
                if hdr(res, "Range") != want:
                    ctx.violation("PATCH reports Range %r after %d bytes" % (hdr(res, "Range"), len(s.data)), hist(case, k, res), "C08:patch-range")
                tok = urllib.parse.parse_qs(urllib.parse.urlparse(hdr(res, "Location")).query).get("state", [""])[0]
                if decode_state(tok) != len(s.data):
                    ctx.violation("PATCH hands out a state token for offset %s after %d bytes" % (decode_state(tok), len(s.data)), hist(case, k, res), "C08:state-token")
                continue
            # uput, in order
            d = st["digest"]
            if not gen.dvalid_py(d):
                if not (400 <= status < 500):
                    ctx.violation("PUT with malformed digest answered %s" % status, hist(case, k, res), "C08:bad-digest")
                continue
            total = s.data + st["body"]
            good = real_hash_ok(d, total) and (not s.expect or s.expect == d)
            if good:
                if status != 201:
                    ctx.violation("completion with the correct digest answered %s" % status, hist(case, k, res), "C08:complete-refused")
                    if 400 <= status < 500:
                        s.open = False
                    continue
                s.open = False
                s.final = (d, total)
            else:
                if not (400 <= status < 500):
                    ctx.violation("completion with a digest that does not match the %d accepted bytes answered %s" % (len(total), status),
                                  hist(case, k, res), "C08:bad-complete-accepted")
                s.open = False      # failed verification ends the session
            continue
        if kind == "blobget" and status in (200, 404) and not st.get("head") and not st.get("rng"):
            # a completed session's blob is the concatenation of its accepted chunks
            for s in sess.values():
                fin = getattr(s, "final", None)
                if fin and fin[0] == st["arg"] and s.repo == repo and status == 200 and body_of(res) != fin[1]:
                    ctx.violation("blob %s is not the concatenation of the accepted chunks" % st["arg"][:19], hist(case, k, res), "C08:concat")
        if kind == "expire":
            for s in sess.values():
                if s.repo == repo:
                    s.open = False
        if kind == "prunecount":
            n = res.get("n", 0)
            opened = sorted([s for s in sess.values() if s.repo == repo and s.open], key=lambda s: s.used)
            minc = max(1, int(maxs * 0.9))
            if len(opened) > minc:
                for s in opened[:len(opened) - minc]:
                    s.open = False          # least recently used first
                opened = opened[len(opened) - minc:]
            if n > maxs:
                ctx.violation("%d sessions open after count pruning, limit %d" % (n, maxs), hist(case, k, None, n=n), "C08:bound")
            if n != len(opened):
                ctx.violation("%d sessions registered after count pruning, expected %d (limit %d)" % (n, len(opened), maxs), hist(case, k, None, n=n), "C08:prune-count")
        if kind == "sesscount":
            opened = [s for s in sess.values() if s.repo == repo and s.open]
            if res.get("n") != len(opened):
                ctx.violation("%s sessions registered in repository %s, %d are open" % (res.get("n"), repo, len(opened)), hist(case, k, None), "C08:session-count")
        if kind == "restart":
            for s in sess.values():
                s.open = False
        if kind == "snapshot":
            # no temporary file without an open session
            files = [f["path"] for f in res.get("files") or [] if "/_uploads/" in f["path"] and not f["dir"]]
            for r in {s.repo for s in sess.values()} | {f.split("/_uploads/")[0] for f in files}:
                nopen = len([s for s in sess.values() if s.repo == r and s.open])
                nfiles = len([f for f in files if f.startswith(r + "/_uploads/")])
                if nfiles != nopen:
                    ctx.violation("%d temporary upload file(s) in %s/_uploads, %d session(s) open" % (nfiles, r, nopen), hist(case, k, None, files=files), "C08:temp-residue")


# ---- C02 ---------------------------------------------------------------------------------------
def c02(ctx, case, io):
    """acknowledged pushes read back byte-identical until deleted"""
    views = getattr(ctx, "views", {})
    blobs = {}      # (repo, digest) -> bytes
    mans = {}       # (repo, digest) -> (bytes, media type)
    tags = {}       # (repo, tag) -> digest
    sess = {}
    was_child = set()      # (repo, digest) listed as a child by an acknowledged index push
    parents = {}           # (repo, child digest) -> digests of the acknowledged indexes that list it
    orphaned = set()       # (repo, child digest) one of whose listing indexes was deleted (known finding F35 applies)
    claimed = {}           # (repo, digest) -> media types under which acknowledged index pushes list it
    restarted = False
    limit = case["conf"]["mlimit"]
    stored_at, aged_at, prev_keys = {}, {}, set()      # when content became present / when a repository's content was last made old
    for k, (st, res) in enumerate(zip(case["steps"], io["steps"])):
        cur_keys = set(blobs) | set(mans)
        for key_ in cur_keys - prev_keys:
            stored_at[key_] = k - 1
        for key_ in prev_keys - cur_keys:
            stored_at.pop(key_, None)
        prev_keys = cur_keys
        if res.get("panic"):
            continue
        kind, status = st["kind"], res.get("status")
        repo = st.get("repo")
        if kind == "age" and not st["impl"].get("digest"):
            aged_at[repo] = k
        if kind == "upost":
            if status == 202:
                sess[k] = dict(repo=repo, data=b"")
            elif status == 201 and st["digest"] and real_hash_ok(st["digest"], st["body"]):
                blobs[(repo, st["digest"])] = st["body"]
                stored_at[(repo, st["digest"])] = k          # acknowledged now: stored (again) now
            elif status == 201 and st["mount"] and st["frm"]:
                src = blobs.get((st["frm"], st["mount"]))
                if src is not None:
                    blobs[(repo, st["mount"])] = src
        elif kind in ("upatch", "uput"):
            m = SID_RE.match(st["sid"])
            s = sess.get(int(m.group(1))) if m else None
            if s and s["repo"] == repo:
                if kind == "upatch" and status == 202:
                    s["data"] += st["body"]
                elif kind == "uput" and status == 201:
                    total = s["data"] + st["body"]
                    if real_hash_ok(st["digest"], total):
                        blobs[(repo, st["digest"])] = total
                        stored_at[(repo, st["digest"])] = k
        elif kind == "mput":
            if len(st["body"]) > limit and status == 201:
                ctx.violation("manifest of %d bytes accepted with limit %d (acknowledged digest %s)" % (len(st["body"]), limit, hdr(res, "Docker-Content-Digest")[:19]),
                              hist(case, k, res), "C02:oversize-accepted")
            if status == 201:
                d = hdr(res, "Docker-Content-Digest")
                body = st["body"]
                if real_hash_ok(d, body):
                    mt = st["ctype"] or (detect_py(views[body]) if body in views else None)
                    # the same bytes may be acknowledged under several media types (header docker list, body OCI index ...):
                    # each of them is "the pushed media type"
                    prev = mans.get((repo, d))
                    mans[(repo, d)] = (body, mt, (prev[2] if prev else set()) | {mt})
                    blobs[(repo, d)] = body
                    stored_at[(repo, d)] = k
                    if body in views and kind_of_mt(mt or "") == "index":
                        for cd in views[body]["manifests"]:
                            was_child.add((repo, cd["dig"]))
                            parents.setdefault((repo, cd["dig"]), set()).add(d)
                            claimed.setdefault((repo, cd["dig"]), set()).add(cd.get("mt"))
                    if gen.is_tag_py(st["arg"]):
                        tags[(repo, st["arg"])] = d
        elif kind == "mdel" and status == 202:
            if gen.is_tag_py(st["arg"]):
                tags.pop((repo, st["arg"]), None)
            else:
                mans.pop((repo, st["arg"]), None)
                for t in [t for t, d in tags.items() if t[0] == repo and d == st["arg"]]:
                    del tags[t]
                for (r_, c_), ps_ in parents.items():
                    if r_ == repo and st["arg"] in ps_:
                        orphaned.add((r_, c_))
        elif kind == "blobdel" and status == 202:
            blobs.pop((repo, st["arg"]), None)
            mans.pop((repo, st["arg"]), None)
            for t in [t for t, d in tags.items() if t[0] == repo and d == st["arg"]]:
                del tags[t]
        elif kind in ("gc", "gcpass", "restart") or kind == "expire":
            if kind == "restart" and case["conf"]["store"] == "dir":
                sess.clear()
                restarted = True
                continue
            # what a collection may remove is judged by C05/C06; under the default policy (untagged collection off) every
            # manifest stays, with every blob a manifest references; blobs nothing references are forgotten here
            if kind != "expire":
                sess.clear()
                pol = case["conf"]
                if kind == "gc":
                    restarted = True        # (a collection re-reads the index like a restart does: known finding F35 applies)
                if kind == "gc" and not res.get("err"):
                    # what this check still expects after a collection: the tagged manifests of the repository and everything they
                    # reference, transitively (every policy retains those); the rest is C05 / C06's business and is forgotten
                    r0 = st.get("repo")
                    keep, work = set(), [d_ for (r_, t_), d_ in tags.items() if r_ == r0]
                    while work:
                        d_ = work.pop()
                        if (r0, d_) in keep:
                            continue
                        keep.add((r0, d_))
                        ent = mans.get((r0, d_))
                        v_ = views.get(ent[0]) if ent else None
                        if v_ and ent[1] and kind_of_mt(ent[1]) == "image":
                            if v_.get("config"):
                                keep.add((r0, v_["config"]["dig"]))
                            for x_ in v_.get("layers") or []:
                                keep.add((r0, x_["dig"]))
                        elif v_ and ent[1] and kind_of_mt(ent[1]) == "index":
                            for x_ in v_.get("manifests") or []:
                                if kind_of_mt(x_.get("mt") or "") in ("image", "index"):
                                    work.append(x_["dig"])
                                else:
                                    keep.add((r0, x_["dig"]))
                    # ... and the referrers of what stays (every policy keeps the referrers of a subject it retains), with what they name
                    grew = True
                    while grew:
                        grew = False
                        for (r_, d_), ent in list(mans.items()):
                            v_ = views.get(ent[0])
                            if r_ != r0 or (r_, d_) in keep or not v_ or not v_.get("subject") or kind_of_mt(ent[1] or "") != "image":
                                continue
                            if (r0, v_["subject"]["dig"]) in keep and (r0, v_["subject"]["dig"]) in mans:
                                keep.add((r_, d_))
                                if v_.get("config"):
                                    keep.add((r0, v_["config"]["dig"]))
                                for x_ in v_.get("layers") or []:
                                    keep.add((r0, x_["dig"]))
                                grew = True
                    if dflt(pol.get("grace_ms"), 3600000) > 0:
                        # ... and what became present after the repository's content was last made old: uploaded within the grace period
                        keep |= {key_ for key_ in cur_keys if key_[0] == r0 and stored_at.get(key_, -1) > aged_at.get(r0, -1)}
                    for key_ in [key_ for key_ in blobs if key_[0] == r0 and key_ not in keep]:
                        del blobs[key_]
                    for key_ in [key_ for key_ in mans if key_[0] == r0 and key_ not in keep]:
                        del mans[key_]
                else:
                    blobs.clear(); mans.clear(); tags.clear()
        elif kind == "blobget":
            want = blobs.get((repo, st["arg"]))
            if want is not None:
                sigb = None
                if restarted and (repo, st["arg"]) in orphaned and st["arg"] not in [v for (r_, t), v in tags.items() if r_ == repo]:
                    sigb = "C02:child-manifest-lost-after-index-delete-and-restart"       # (the blob of such a manifest goes with it)
                check_read(ctx, case, k, st, res, want, st["arg"], None, "blob", lost_sig=sigb)
        elif kind == "mget":
            if gen.is_tag_py(st["arg"]):
                d = tags.get((repo, st["arg"]))
            else:
                d = st["arg"] if (repo, st["arg"]) in mans else None
            if d is not None and (repo, d) in mans:
                body, mt, mset = mans[(repo, d)]
                # every Accept list containing the stored type must be served
                if None in mset or all(m in accept_list(st["accept"]) for m in mset):
                    sig = None
                    if restarted and (repo, d) in orphaned and d not in [v for (r_, t), v in tags.items() if r_ == repo]:
                        sig = "C02:child-manifest-lost-after-index-delete-and-restart"
                    # (known finding F55: a manifest that lives in the child list is served under the media type the index that
                    #  lists it claims for it)
                    by_claim = res.get("status") in (200, 206) and hdr(res, "Content-Type") not in mset and hdr(res, "Content-Type") in claimed.get((repo, d), set())
                    if by_claim:
                        ctx.violation("manifest %s pushed as %s is served as %r, the media type under which an index of the repository lists it" % (d[:19], sorted(x for x in mset if x), hdr(res, "Content-Type")),
                                      hist(case, k, res), "C02:child-served-under-parent-claimed-type")
                    check_read(ctx, case, k, st, res, body, d, mt if (len(mset) == 1 and not by_claim) else None, "manifest", lost_sig=sig)
                    if len(mset) > 1 and not by_claim and None not in mset and res.get("status") in (200, 206) and hdr(res, "Content-Type") not in mset:
                        ctx.violation("manifest %s pushed as %s is served as %r" % (d[:19], sorted(mset), hdr(res, "Content-Type")), hist(case, k, res), "C02:media-type")


def check_read(ctx, case, k, st, res, want, d, mt, what, lost_sig=None):
    status = res.get("status")
    exp_status = 206 if st.get("rng") else 200
    if status != exp_status:
        ctx.violation("acknowledged %s %s read back with status %s" % (what, d[:19], status), hist(case, k, res),
                      lost_sig if (lost_sig and status == 404) else "C02:%s-lost" % what)
        return
    if hdr(res, "Docker-Content-Digest") != d:
        ctx.violation("%s %s read back with Docker-Content-Digest %r" % (what, d[:19], hdr(res, "Docker-Content-Digest")), hist(case, k, res), "C02:digest-header")
    sl_ = want[st["rng"][0]:st["rng"][1] + 1] if st.get("rng") else want
    if hdr(res, "Content-Length") != str(len(sl_)):
        ctx.violation("%s %s read back with Content-Length %r, expected %d" % (what, d[:19], hdr(res, "Content-Length"), len(sl_)), hist(case, k, res), "C02:content-length")
    if not st.get("head") and body_of(res) != sl_:
        ctx.violation("%s %s read back with different bytes (%d vs %d pushed%s)" % (what, d[:19], len(body_of(res)), len(sl_), ", range" if st.get("rng") else ""),
                      hist(case, k, res), "C02:bytes-differ")
    if mt is not None and hdr(res, "Content-Type") != mt:
        ctx.violation("manifest %s pushed as %s is served as %r" % (d[:19], mt, hdr(res, "Content-Type")), hist(case, k, res), "C02:media-type")


# ---- C04 ---------------------------------------------------------------------------------------
def kind_of_mt(mt):
    return "image" if mt in (MT_OCI_M, MT_DOCK_M) else ("index" if mt in (MT_OCI_I, MT_DOCK_I) else "other")


def detect_py(v):
    """types.MediaTypeDetect on the view computed by Go's encoding/json"""
    if not v["ok_d"]:
        return ""
    if v["mt"]:
        return v["mt"]
    if v["manifests"]:
        return MT_DOCK_I if v["manifests"][0]["mt"].startswith("application/vnd.docker.") else MT_OCI_I
    if v["config"] is None or not v["config"]["mt"]:
        return ""
    return MT_DOCK_M if v["config"]["mt"].startswith("application/vnd.docker.") else MT_OCI_M


def c04(ctx, case, io, views):
    probes = {}
    puts = {}
    for k, (st, res) in enumerate(zip(case["steps"], io["steps"])):
        if res.get("panic"):
            continue
        if st.get("probe"):
            phase, gid = st["probe"]
            o = canon_impl(st, res, SidMap())
            probes.setdefault((gid, phase), []).append((st["model"], json.dumps(o, sort_keys=True, default=lambda b: b.decode("latin-1"))))
        if st["kind"] == "mput":
            puts[k] = (st, res)
            status = res["status"]
            body = st["body"]
            if status == 201:
                v = views.get(body)
                d = hdr(res, "Docker-Content-Digest")
                if not gen.is_tag_py(st["arg"]) and st["arg"] != d:
                    ctx.violation("push acknowledged for reference %r which is neither a tag nor the digest of the body" % st["arg"][:30], hist(case, k, res), "C04:reference")
                if not real_hash_ok(d, body):
                    ctx.violation("push acknowledged under a digest that is not the digest of the body", hist(case, k, res), "C04:reference")
                mt = st["ctype"] or (detect_py(v) if v else "")
                if mt not in SUPPORTED:
                    ctx.violation("push acknowledged with unsupported media type %r" % mt, hist(case, k, res), "C04:media-type")
                elif v is not None:
                    parses = v["ok_m"] if kind_of_mt(mt) == "image" else v["ok_i"]
                    if not parses:
                        ctx.violation("push acknowledged although the body does not parse as %s" % kind_of_mt(mt), hist(case, k, res), "C04:unparsable")
                    det = detect_py(v)
                    if det and kind_of_mt(det) != kind_of_mt(mt):
                        ctx.violation("push acknowledged as %s although the body is %s" % (mt, det), hist(case, k, res), "C04:type-inconsistent")
                    # what it references exists in the repository: in particular every referenced digest is a digest
                    try:
                        jb = json.loads(body.decode("utf-8"))
                    except Exception:
                        jb = None
                    if isinstance(jb, dict):
                        refs_ = ([jb.get("config")] + list(jb.get("layers") or [])) if kind_of_mt(mt) == "image" else list(jb.get("manifests") or [])
                        for x_ in refs_:
                            dgx = x_.get("digest") if isinstance(x_, dict) else None
                            if not (isinstance(dgx, str) and gen.dvalid_py(dgx)):
                                ctx.violation("push acknowledged although it references %r, which is not the digest of anything" % (dgx,), hist(case, k, res), "C04:invalid-reference-digest")
                                break
            elif not (400 <= status < 500):
                ctx.violation("manifest push answered %s" % status, hist(case, k, res), "C04:status")
        if st.get("refcheck"):
            pk, role = st["refcheck"]
            pst, pres = puts.get(pk, (None, None))
            if pres is not None and pres["status"] == 201 and res.get("status") != 200:
                v = views.get(pst["body"])
                mt = pst["ctype"] or (detect_py(v) if v else "")
                relevant = (kind_of_mt(mt) == "image" and role in ("config", "layers")) or (kind_of_mt(mt) == "index" and role == "manifests")
                if relevant:
                    ctx.violation("push acknowledged although the referenced %s %s is not in the repository" % (role, st["arg"][:19]),
                                  hist(case, k, res), "C04:missing-reference")
    for (gid, phase), obs in probes.items():
        if phase != "pre":
            continue
        post = probes.get((gid, "post"))
        pk = [k for k, (st, _) in puts.items() if st.get("probed") == gid]
        if not post or not pk:
            continue
        st, res = puts[pk[0]]
        if res["status"] != 201 and obs != post:
            diff = [(a[0], a[1][:300], b[1][:300]) for a, b in zip(obs, post) if a != b][:2]
            ctx.violation("refused manifest push (%s) changed the observable state" % res["status"],
                          hist(case, pk[0], res, changed=diff), "C04:refusal-changed-state")
