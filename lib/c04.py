"""C04 - only complete, well-formed manifests are accepted; refusals change nothing.
Theorems: coq/Props_C04.v.  Tie: differential histories with malformed / truncated / trailing-garbage
bodies, wrong types, missing references and references present only in another repository + the direct
oracle (acceptance conditions re-checked with Go's own JSON decoder; reads before/after each refusal)."""
import apicheck
import oracles
from api import *

LEVEL = "proof"
PROFILE = dict(blob=2, chunked=0.5, mount=0.5, image=6, index=3, artifact=2.5, mread=1, bread=0.5, tags=0.5, refs=1,
               mdel=1, bdel=0.5, sess=0.2, bad=4.0)


def make_cases(ctx, first):
    n, steps = (400, 50) if ctx.tier == "quick" else (12000, 60)
    confs = [mkconf(store="mem"), mkconf(store="dir"), mkconf(store="mem", mlimit=600), mkconf(store="dir", referrer=False)]
    return apicheck.std_cases(ctx, first, n, steps, confs, profile=PROFILE, repos=["a", "a/b", "proj/app"])


def run(ctx):
    apicheck.run(ctx, "C04", make_cases, lambda c, case, io: oracles.c04(c, case, io, c.views))
