"""C16 - repositories are isolated and storage access stays inside the root.
Theorems: coq/Props_C16.v (frame: a request touches only the repository it addresses; every store action
of every handler addresses that repository or is a read; grammar names have no dot segments - Props_C15).
Tie: differential histories over nested / prefix-related repository names and hostile mount sources +
direct oracle: content is only visible where it was pushed or mounted, and on the directory store every file
system change of a request lies inside that repository's own directory (snapshots around every request,
with a sentinel layout outside the root)."""
import json

import apicheck
import oracles
from api import *
import gen

LEVEL = "proof"
REPOS = ["a", "a/b", "a/b/c", "ab"]
PROFILE = dict(blob=3, chunked=1, mount=5, image=3, index=1, artifact=1.5, mread=2, bread=4, tags=1, refs=1,
               mdel=1, bdel=1, sess=2, bad=1.0, interrupt=0)
RESERVED = ["blobs", "a/blobs", "index.json", "a/index.json/x", "oci-layout", "a/b/blobs/sha256", "a/_uploads", "a/b/oci-layout"]


def outside_seed():
    """an OCI layout next to (not under) the root: nothing of it may ever be served or changed"""
    secret = b"secret-outside-the-root"
    d = dg("sha256", secret)
    idx = jdump({"schemaVersion": 2, "mediaType": MT_OCI_I, "manifests": []})
    return [dict(path="../outside/layout/oci-layout", b64=b64(b'{"imageLayoutVersion":"1.0.0"}')),
            dict(path="../outside/layout/index.json", b64=b64(idx)),
            dict(path="../outside/layout/blobs/sha256/" + d.split(":")[1], b64=b64(secret))], secret


def oracle(ctx, case, io):
    have = {}         # repo -> set of digests pushed / mounted there
    tags = {}
    sess = {}
    prev_snap = None
    prev_step = None
    secret = case.get("secret")
    for k, (st, res) in enumerate(zip(case["steps"], io["steps"])):
        if res.get("panic"):
            continue
        kind, status = st["kind"], res.get("status")
        repo = st.get("repo")
        hs = have.setdefault(repo, set())
        hist = lambda: oracles.hist(case, k, res)
        if kind == "snapshot":
            # (the temporary directory of the process lies next to the root in these cases: anything created or removed in it
            #  - even for a moment - changes its modification time)
            files = {f["path"]: (f["dir"], f["size"], f.get("sha"), f.get("mtime") if f["path"].startswith("tmpdir") else None) for f in res.get("files") or []}
            if case.get("keep_root") and prev_snap is not None and "root" in prev_snap and "root" not in files:
                ctx.violation("the root directory itself is gone after the %s on %r (root written as %r in the configuration)" % (prev_step["kind"] if prev_step else "?", prev_step.get("repo") if prev_step else None, case["conf"].get("rootspell") or "clean"),
                              oracles.hist(case, k - 1, None), "C16:root-directory-removed")
                prev_snap = files
                continue
            if prev_snap is not None and prev_step is not None:
                changed = [p for p in set(files) | set(prev_snap) if files.get(p) != prev_snap.get(p)]
                r = prev_step.get("repo")
                for p in changed:
                    if not p.startswith("root/"):
                        ctx.violation("request changed %s, outside the root directory" % p, oracles.hist(case, k - 1, None, path=p), "C16:outside-root")
                        continue
                    rel = p[len("root/"):]
                    own = r is not None and (rel == r or rel.startswith(r + "/") or r.startswith(rel + "/"))
                    inner = own and any(o != r and o.startswith(r + "/") and (rel == o or rel.startswith(o + "/")) for o in case["repos"])
                    # the layout files and directories of another repository (also when r is nested below it)
                    layout = any(o != r and any(rel == o + "/" + x or rel.startswith(o + "/" + x + "/") for x in ("blobs", "index.json", "oci-layout", "_uploads"))
                                 for o in case["repos"])
                    if not own or inner or layout:
                        ctx.violation("request on repository %r changed %s" % (r, rel), oracles.hist(case, k - 1, None, path=rel), "C16:other-repo-files")
            prev_snap = files
            continue
        prev_step = st
        if kind == "upost":
            if status == 202:
                sess[k] = dict(repo=repo, data=b"")
            if status == 201:
                if st["digest"]:
                    hs.add(st["digest"])
                elif st["mount"]:
                    src = st["frm"]
                    if st["mount"] not in hs and not (src in have and st["mount"] in have[src] and REPO_RE.match(src or "")):
                        ctx.violation("mount of %s from %r succeeded although neither the source nor the target holds it" % (st["mount"][:19], src),
                                      hist(), "C16:mount-without-source")
                    hs.add(st["mount"])
        elif kind in ("upatch", "uput"):
            m = oracles.SID_RE.match(st["sid"])
            s = sess.get(int(m.group(1))) if m else None
            if s is not None and s["repo"] != repo and status is not None and 200 <= status < 300:
                ctx.violation("session of repository %r used in %r (%s)" % (s["repo"], repo, status), hist(), "C16:session-cross-repo")
            if s is not None and s["repo"] == repo:
                if kind == "upatch" and status == 202:
                    s["data"] += st["body"]
                if kind == "uput" and status == 201:
                    hs.add(st["digest"])
        elif kind == "mput" and status == 201:
            hs.add(oracles.hdr(res, "Docker-Content-Digest"))
            if gen.is_tag_py(st["arg"]):
                tags.setdefault(repo, set()).add(st["arg"])
        elif kind in ("blobget", "mget") and status in (200, 206):
            d = oracles.hdr(res, "Docker-Content-Digest")
            if d not in hs:
                ctx.violation("%s %s served from repository %r where it was never pushed or mounted" % (kind, d[:19], repo), hist(), "C16:leak")
            if kind == "mget" and gen.is_tag_py(st["arg"]) and st["arg"] not in tags.get(repo, set()):
                ctx.violation("tag %s resolves in repository %r where it was never pushed" % (st["arg"], repo), hist(), "C16:tag-leak")
            if secret is not None and not st.get("head") and oracles.body_of(res) == secret:
                ctx.violation("content from outside the root directory was served", hist(), "C16:outside-read")
        elif kind == "tags" and status == 200 and not st.get("head"):
            o = canon_impl(st, res, SidMap())
            extra = set(o.get("tags") or []) - tags.get(repo, set())
            if extra:
                ctx.violation("tags %s listed in repository %r where they were never pushed" % (sorted(extra), repo), hist(), "C16:tag-leak")
        elif kind == "refwalk":
            # continuation links of this repository's paged referrers response replayed against other repositories
            for name, pages in zip(st["impl"].get("names") or [], (res.get("par") or [])[1:]):
                for pg in pages:
                    try:
                        j = json.loads(oracles.body_of(pg).decode())
                    except Exception:
                        continue
                    for dsc in (j.get("manifests") or []) if isinstance(j, dict) else []:
                        if dsc.get("digest") not in have.get(name, set()):
                            ctx.violation("referrer %s of repository %r was served from repository %r (paged request with the cache digest of %r's response), where it was never pushed"
                                          % (str(dsc.get("digest"))[:19], repo, name, repo), hist(), "C16:referrer-page-leak")
                            break
        elif kind == "refs" and status == 200:
            o = canon_impl(st, res, SidMap())
            for dk in o.get("refs") or []:
                d = json.loads(dk)["dig"]
                if d not in hs:
                    ctx.violation("referrer %s listed in repository %r where it was never pushed" % (d[:19], repo), hist(), "C16:referrer-leak")


def page_cases(ctx, first, n):
    """a referrers response split into pages in one repository; its continuation links sent to other repositories"""
    import c07
    rng = ctx.rng
    cases = []
    for i in range(n):
        conf = mkconf(store=("mem", "dir")[i % 2], rlimit=rng.choice([900, 1100, 1500]), withsubj=False, dangling=False)
        repos = ["a", "a/b", "ab"]
        w = c07.W7(rng, conf, repos[:2])
        w.base("a")
        subj = w.subject("a")
        for _ in range(rng.randrange(5, 12)):
            w.artifact("a", subject=subj)
        for _ in range(rng.randrange(0, 3)):
            w.artifact("a/b", subject=subj)
        flt = rng.choice([None, None, c07.ATS[0]])
        for _ in range(2):
            st = c07.ref_walk("a", subj["digest"], flt)
            st["impl"] = dict(st["impl"], repo="a", names=["a/b", "ab", "never/used"])
            w.add(st)
            w.add(c07.ref_walk("a/b", subj["digest"], flt))
        cases.append(dict(id=first + i, conf=conf, steps=w.steps, contents=sorted(w.contents), repos=repos))
    return cases


def prune_cases(ctx, first, n):
    """directory store whose root directory is written in the configuration in a form that is not the cleaned one (a trailing
    slash, ./, //, x/..): the only repository - a nested name - is emptied and collected, which removes its directory;
    nothing outside that directory may go with it (the root directory and what lies above it stay)"""
    import gcgen
    rng = ctx.rng
    cases = []
    for i in range(n):
        spell = ["slash", "dot", "double", "dotdot", ""][i % 5]
        repo = rng.choice(["team/app", "a/b/c", "solo"])
        conf = mkconf(store="dir", grace_ms=-1, rootspell=spell, tmpincase=True)
        seed, secret = outside_seed()
        blob = b"unreferenced-%d" % i
        steps = [upload_post(repo, digest=dg("sha256", blob), body=blob), blob_get(repo, dg("sha256", blob))]
        if i % 2:
            cfg = b"{}"
            m = image_manifest(desc(MT_CFG, cfg), [], annotations={"prune": str(i)})
            steps += [upload_post(repo, digest=dg("sha256", cfg), body=cfg), manifest_put(repo, "t1", m, ctype=MT_OCI_M), manifest_delete(repo, "t1"), manifest_delete(repo, dg("sha256", m))]
        steps += [gcgen.age_step(repo, "", 7200), gcgen.gc_step(repo), tag_list(repo), gcgen.gc_step(repo)]
        st2 = [special("snapshot", kind="case")]
        for s_ in steps:
            s_["model"] = "(skip)"
            st2 += [s_, special("snapshot", kind="case")]
        cases.append(dict(id=first + i, conf=conf, steps=st2, contents=[blob], seed=seed, secret=secret, repos=[repo], keep_root=True))
    return cases


def make_cases(ctx, first):
    n, steps = (240, 30) if ctx.tier == "quick" else (6000, 45)
    cases = page_cases(ctx, first + 100000, 24 if ctx.tier == "quick" else 600)
    cases += prune_cases(ctx, first + 200000, 10 if ctx.tier == "quick" else 200)
    rng = ctx.rng
    for i in range(n):
        store = ("dir", "mem", "dir")[i % 3]
        conf = mkconf(store=store)
        repos = rng.sample(REPOS, 3)
        w = gen.World(rng, conf, repos=repos, profile=PROFILE)
        seed, secret = outside_seed()
        snap = store == "dir" and i % 2 == 0
        if snap:
            conf["tmpincase"] = True
        target = steps
        while len(w.steps) < target:
            before = len(w.steps)
            w.run(before + 1)
            if rng.random() < 0.15:
                # reserved layout names as (parts of) repository names, hostile mount sources
                r = rng.choice(RESERVED)
                w.add(upload_post(r, digest=dg("sha256", b"x"), body=b"x"))
                w.add(tag_list(r))
            if rng.random() < 0.15:
                # digests inside a manifest body whose hex part walks to another repository's blob or out of the root
                tgt = w.repo()
                up = "../" * (3 + tgt.count("/"))
                others = [r for r in repos if r != tgt and w.blobs[r]]
                if others and rng.random() < 0.6:
                    o = rng.choice(others)
                    data = rng.choice(w.blobs[o])
                    hexd = up + o + "/blobs/sha256/" + dg("sha256", data).split(":")[1]
                else:
                    data = secret
                    hexd = up + "../outside/layout/blobs/sha256/" + dg("sha256", secret).split(":")[1]
                evil = {"mediaType": rng.choice([MT_OCI_M, MT_LAYER]), "digest": "sha256:" + hexd, "size": len(data)}
                if rng.random() < 0.5:
                    body = index_manifest([evil], annotations={"evil": str(len(w.steps))})
                    mt = MT_OCI_I
                else:
                    w.ensure_blob(tgt, b"{}")
                    body = image_manifest(desc(MT_CFG, b"{}"), [evil], annotations={"evil": str(len(w.steps))})
                    mt = MT_OCI_M
                w.contents.add(body)
                w.add(manifest_put(tgt, "evil", body, ctype=mt))
                w.add(manifest_get(tgt, "evil", accept=[MT_OCI_M]))
                w.add(manifest_get(tgt, "evil", accept=[MT_OCI_I, MT_OCI_M]))
            if rng.random() < 0.2:
                tgt = w.repo()
                d = dg("sha256", secret) if rng.random() < 0.5 else dg("sha256", rng.choice(gen.BLOBS))
                frm = rng.choice(["../outside/layout", "../../outside/layout", tgt + "/../../outside/layout", "a/../" + w.repo(), "..", "/", "a//b", ".", "a/."])
                w.add(upload_post(tgt, mount=d, frm=frm))
                w.add(blob_get(tgt, d))
        if store == "dir" and i % 6 == 2:
            # deeply nested names at the edge of what the file system can address: the directory of the repository and its sha256
            # blobs fit into a path, a sha512 blob does not (the length of the root directory is not known here: a ladder of names)
            k0 = len(w.steps)
            for total in rng.sample(range(3700, 4040, 40), 4):
                comps, left = [], total
                while left > 0:
                    c = min(left, rng.randrange(180, 250))
                    comps.append("n" * c)
                    left -= c + 1
                long = "/".join(comps)
                absent = b"never-stored-%d-%d" % (i, total)
                w.add(upload_post(long, digest=dg("sha256", b"x"), body=b"x"))
                w.add(upload_post(long, mount=dg("sha512", absent), frm=rng.choice(repos)))
                w.add(blob_get(long, dg("sha512", absent)))
                w.add(upload_post(long, mount=dg("sha256", absent), frm=rng.choice(repos)))
            for s_ in w.steps[k0:]:
                s_["model"] = "(skip)"          # (whether such a name can be stored at all depends on the root directory's own length)
        if snap:
            # snapshots of the whole case directory (root and its surroundings) around every request
            st2 = [special("snapshot", kind="case")]
            for s in w.steps:
                st2.append(s)
                st2.append(special("snapshot", kind="case"))
            # the inserted snapshots shift the indices session placeholders refer to
            idx = {}
            j = 0
            for s in st2:
                if s["kind"] != "snapshot":
                    idx[j] = st2.index(s)
                    j += 1
            def renum(x):
                if isinstance(x, str):
                    return re.sub(r"\$SID(\d+)\$", lambda m: "$SID%d$" % (2 * int(m.group(1)) + 1), x)
                if isinstance(x, dict):
                    return {a: renum(b) for a, b in x.items()}
                if isinstance(x, list):
                    return [renum(b) for b in x]
                return x
            st2 = [renum(s) for s in st2]
            w.steps = st2
        w.probe()
        if store == "mem":
            # a pure memory store has no storage on disk: layouts that happen to lie below the working directory under a
            # repository's name are not its content
            conf["cwd"] = True
            for r in repos:
                for data in gen.BLOBS[1:4]:
                    seed.append(dict(path=r + "/blobs/sha256/" + dg("sha256", data).split(":")[1], b64=b64(data)))
                seed.append(dict(path=r + "/oci-layout", b64=b64(b'{"imageLayoutVersion":"1.0.0"}')))
                seed.append(dict(path=r + "/index.json", b64=b64(jdump({"schemaVersion": 2, "mediaType": MT_OCI_I, "manifests": []}))))
        cases.append(dict(id=first + i, conf=conf, steps=w.steps, contents=sorted(w.contents), seed=seed, secret=secret, repos=repos))
    return cases


def run(ctx):
    apicheck.run(ctx, "C16", make_cases, oracle,
                 assumptions=["symlinks inside the root directory are outside the claim", "the file-system oracle runs on the directory store only"])
