"""C12 - no schedule of requests and background work can hang the registry.
Theorems: coq/Props_C12.v - the lock discipline R1-R3 of coq/Sync.v (no blocking wait under a store-wide or server-wide
mutex, mutexes acquired in rank order, no unknown mutex) evaluated on the table of synchronisation statements that
harness/gofacts regenerates from olareg.go, referrer.go, internal/store and internal/cache on every run; ranked
acquisition excludes wait-for cycles; the handlers themselves are finite sequences of atomic store actions.  The order is also
checked across calls (coq/LockOrder.v on Gen_Locks.v: acquisitions closed over the call graph that the Go type checker
resolves, interface calls to every implementing method, `locked` parameters followed, cache instances told apart).
The collection gate of a repository (token channel wgBlock + request count wg) is checked on every path of every function that
touches it: coq/Gate.v walks the control-flow trees of Gen_Gate.v (rules G1-G5: the token is given back before every return,
RepoGet counts exactly one reference when it hands out a repository, handlers release what they obtained exactly once; L1-L3:
every frame returns without a mutex it locked itself, no unlock of a mutex not held, no second lock) and
GateProofs.v proves what the rules buy in the protocol with any number of threads (one token, count = handles out).
Search for a failing schedule (the proof obligations may break on a harmless rewrite): stall scenarios on the real server under a watchdog - a request holding a repository while a
collection tick arrives and further requests queue (other repositories must stay responsive, a cancelled waiter must
return), Close racing the collection ticker at microsecond periods, uploads racing session expiry and eviction,
concurrent pushes / deletes / reads against a running ticker followed by Close.  A stall is reported with the stacks of
the goroutines inside olareg."""
import json
import os
import re

from api import *
import gen

LEVEL = "proof"


def manifest(n, layers=(b"layer-shared",)):
    return image_manifest(desc(MT_CFG, b"{}"), [desc(MT_LAYER, l) for l in layers], annotations={"n": str(n)})


def base_steps(repos=("dst", "src")):
    st = []
    for r in repos:
        st += [upload_post(r, digest=dg("sha256", b"{}"), body=b"{}"), upload_post(r, digest=dg("sha256", b"layer-shared"), body=b"layer-shared"),
               manifest_put(r, "v1", manifest(0), ctype=MT_OCI_M)]
    return st


def timed(st, ms):
    st = dict(st)
    st["impl"] = dict(st["impl"], timeout_ms=ms)
    return st


def sc_waiter(rng, cid, store):
    """a request keeps repository dst busy (its body arrives slowly) while the ticker wants to collect dst and another
    request to dst queues behind the collection: requests to src must be served, the queued one must return on cancel"""
    conf = mkconf(store=store, withsubj=False, freq_ms=rng.choice([3, 5, 10]))
    steps = base_steps()
    m = manifest(rng.randrange(1000))
    put = manifest_put("dst", "copy", m, ctype=MT_OCI_M)
    queued = timed(tag_list("dst"), rng.choice([700, 900]))
    other = timed(tag_list("src"), 2500)
    other["must_complete"] = "a request to another repository while dst waits for its collection"
    mids = [special("sleep", secs=0.04), dict(kind="async", impl=dict(op="async", par=[[queued["impl"]]]), model="(skip)"),
            special("sleep", secs=0.03), other, dict(kind="join", impl=dict(op="join", secs=2.0), model="(skip)", must_complete="the queued request whose context was cancelled")]
    sp = split(put, len(m) // 2, mids)
    steps.append(sp)
    steps += [manifest_get("dst", "copy"), tag_list("src"), special("close")]
    return dict(id=cid, conf=conf, steps=steps, scenario="collection-waiter")


def sc_cache_timer(rng, cid, store):
    """the directory store drops a repository from its cache when it was not asked for during a grace period, and collects it
    first - from the cache's timer, inside the cache. A request that keeps dst for longer than that (its body arrives slowly)
    makes this collection wait; a request to src in the meantime must still be served"""
    conf = mkconf(store=store, withsubj=False, freq_ms=0, grace_ms=rng.choice([30, 40, 60]))
    steps = base_steps()
    m = manifest(rng.randrange(1000))
    put = manifest_put("dst", "copy", m, ctype=MT_OCI_M)
    other = timed(tag_list("src"), 300)
    mids = [special("sleep", secs=0.25), dict(kind="async", impl=dict(op="async", par=[[other["impl"]]]), model="(skip)"), special("sleep", secs=0.9)]
    sp = split(put, len(m) // 2, mids)
    steps.append(sp)
    steps.append(dict(kind="join", impl=dict(op="join", secs=2.0), model="(skip)", within_ms=600,
                      must_complete="a request to another repository, with a 300 ms context, sent while the cache's timer collects dst"))
    steps += [manifest_get("dst", "copy"), tag_list("src"), special("close")]
    return dict(id=cid, conf=conf, steps=steps, scenario="cache-timer-collection")


def sc_close_ticker(rng, cid, store):
    """Close while the collection ticker fires"""
    conf = mkconf(store=store, withsubj=False, freq_us=rng.choice([1, 20, 200, 1000]))
    steps = []
    n = 40 if store == "dir" else 150
    for i in range(n):
        if i % 10 == 0:
            steps += [upload_post("a", digest=dg("sha256", b"{}"), body=b"{}")]
        steps.append(tag_list("a"))
        steps.append(dict(kind="restart", impl=dict(op="restart"), model="(skip)"))
    return dict(id=cid, conf=conf, steps=steps, scenario="close-vs-ticker")


def sc_uploads(rng, cid, store):
    """uploads racing session expiry and eviction"""
    conf = mkconf(store=store, withsubj=False, uploadmax=rng.choice([1, 2, 3]), freq_ms=rng.choice([0, 2]), grace_ms=rng.choice([0, 1, 50]))
    threads = []
    idx = 1000
    for t in range(rng.randrange(3, 6)):
        th = []
        for _ in range(rng.randrange(2, 5)):
            idx += 1
            data = bytes(rng.randrange(256) for _ in range(rng.randrange(10, 3000)))
            p = upload_post("u")
            p["impl"] = dict(p["impl"], idx=idx)
            sid = "$SID%d$" % idx
            h = len(data) // 2
            th += [p, upload_patch("u", sid, "0-%d" % (h - 1), state_token(0), data[:h]), upload_get("u", sid),
                   upload_put("u", sid, None, dg("sha256", data), state_token(h), data[h:])]
        threads.append(th)
    pr = []
    for _ in range(rng.randrange(4, 12)):
        pr.append(dict(kind="uploads", impl=dict(op="uploads", repo="u", kind=rng.choice(["prune_age", "prune_count", "len"])), model="(skip)"))
        if rng.random() < 0.3:
            pr.append(dict(kind="gc", impl=dict(op="gc", repo="u"), model="(skip)"))
    threads.append(pr)
    steps = [upload_post("u", digest=dg("sha256", b"{}"), body=b"{}"),
             dict(kind="par", impl=dict(op="par", par=[[s["impl"] for s in th] for th in threads]), model="(skip)"),
             tag_list("u"), special("close")]
    return dict(id=cid, conf=conf, steps=steps, scenario="uploads-vs-expiry")


def sc_mixed(rng, cid, store):
    """pushes, deletes, reads and collections from several clients against a running ticker, then Close"""
    conf = mkconf(store=store, withsubj=False, freq_ms=rng.choice([1, 2, 5]), grace_ms=rng.choice([-1, 0, 3600000]), untagged=rng.random() < 0.5,
                  ratelimit=rng.choice([0, 0, 1000]))
    steps = base_steps(("a", "b"))
    threads = []
    for t in range(rng.randrange(3, 6)):
        th = []
        for _ in range(rng.randrange(4, 12)):
            repo = rng.choice(["a", "b"])
            r = rng.random()
            if r < 0.3:
                th.append(manifest_put(repo, rng.choice(["t1", "t2", "v1"]), manifest(rng.randrange(50)), ctype=MT_OCI_M))
            elif r < 0.45:
                th.append(manifest_delete(repo, rng.choice(["t1", "t2", "v1"])))
            elif r < 0.6:
                data = b"d%d" % rng.randrange(30)
                th.append(upload_post(repo, digest=dg("sha256", data), body=data))
            elif r < 0.7:
                th.append(upload_post(repo, mount=dg("sha256", b"layer-shared"), frm=rng.choice(["a", "b"])))
            elif r < 0.8:
                th.append(tag_list(repo))
            elif r < 0.9:
                th.append(manifest_get(repo, rng.choice(["t1", "v1"])))
            else:
                th.append(dict(kind="gc", impl=dict(op="gc", repo=repo), model="(skip)"))
        threads.append(th)
    steps.append(dict(kind="par", impl=dict(op="par", par=[[s["impl"] for s in th] for th in threads]), model="(skip)"))
    steps += [tag_list("a"), tag_list("b"), special("close")]
    return dict(id=cid, conf=conf, steps=steps, scenario="mixed-vs-ticker")


def sc_self_mount(rng, cid, store):
    """mounts that name the target repository itself as the source, of digests it does not hold, from several clients while the
    collection ticker runs at microsecond periods: the handler asks for the same repository twice"""
    conf = mkconf(store=store, withsubj=False, freq_us=rng.choice([20, 50, 200, 1000]))
    steps = base_steps(("a",))
    threads = []
    n = 25 if store == "dir" else 60
    for t in range(3):
        th = []
        for j in range(n):
            r = rng.random()
            if r < 0.7:
                th.append(upload_post("a", mount=dg("sha256", b"absent-%d-%d-%d" % (cid, t, j)), frm="a"))
            elif r < 0.8:
                th.append(upload_post("a", mount=dg("sha256", b"layer-shared"), frm="a"))
            elif r < 0.9:
                th.append(tag_list("a"))
            else:
                th.append(upload_post("a", mount=dg("sha256", b"absent-%d" % j), frm="other/repo"))
        threads.append(th)
    steps.append(dict(kind="par", impl=dict(op="par", par=[[s["impl"] for s in th] for th in threads]), model="(skip)"))
    steps += [tag_list("a"), special("close")]
    return dict(id=cid, conf=conf, steps=steps, scenario="self-mount-vs-ticker")


def sc_unknown_session(rng, cid, store):
    """requests for upload sessions that never existed, were cancelled or have expired, then a collection of the repository,
    further requests and Close"""
    conf = mkconf(store=store, withsubj=False, uploadmax=rng.choice([0, 2]), grace_ms=rng.choice([0, 50]))
    steps = base_steps(("a",))
    steps.append(upload_post("a"))
    k = len(steps) - 1
    sid = "$SID%d$" % k
    how = rng.choice(["never", "cancelled", "expired"])
    if how == "cancelled":
        steps.append(upload_delete("a", sid))
    elif how == "expired":
        steps += [dict(kind="uploads", impl=dict(op="uploads", repo="a", kind="age", secs=100000.0), model="(skip)"),
                  dict(kind="uploads", impl=dict(op="uploads", repo="a", kind="prune_age"), model="(skip)")]
    else:
        sid = "never-opened-session"
    reqs = [upload_patch("a", sid, None, state_token(0), b"data"), upload_put("a", sid, None, dg("sha256", b"data"), state_token(0), b"data"),
            upload_get("a", sid), upload_delete("a", sid)]
    first = reqs.pop(rng.randrange(len(reqs))) if cid % 2 else reqs.pop(0)
    rng.shuffle(reqs)
    steps += [first] + reqs[:rng.randrange(0, 4)]
    steps += [upload_post("a", digest=dg("sha256", b"more"), body=b"more"), dict(kind="gc", impl=dict(op="gc", repo="a"), model="(skip)"),
              timed(tag_list("a"), 3000), dict(kind="gc", impl=dict(op="gc", repo="a"), model="(skip)"), special("close")]
    return dict(id=cid, conf=conf, steps=steps, scenario="unknown-session-then-collection")


def sc_close_queued(rng, cid, store):
    """Close arrives while a request keeps the repository busy, the ticker's collection waits for it and another request is queued
    behind that collection: when the first request ends everything - the collection, the queued request, Close - has to come to an end"""
    conf = mkconf(store=store, withsubj=False, freq_ms=rng.choice([3, 5, 10]))
    steps = base_steps(("dst",))
    m = manifest(rng.randrange(1000))
    put = manifest_put("dst", "copy", m, ctype=MT_OCI_M)
    queued = [timed(rng.choice([tag_list("dst"), manifest_get("dst", "v1")]), 4000)["impl"] for _ in range(rng.randrange(1, 3))]
    mids = [special("sleep", secs=0.04), dict(kind="async", impl=dict(op="async", par=[queued]), model="(skip)"),
            special("sleep", secs=0.03), dict(kind="async", impl=dict(op="async", par=[[special("close")["impl"]]]), model="(skip)"),
            special("sleep", secs=rng.choice([0.02, 0.05]))]
    steps.append(split(put, len(m) // 2, mids))
    steps.append(dict(kind="join", impl=dict(op="join", secs=3.0), model="(skip)", must_complete="the queued requests and Close"))
    return dict(id=cid, conf=conf, steps=steps, scenario="close-with-queued-request")


def sc_referrers_during_collection(rng, cid, store):
    """an artifact push (manifest with a subject) is in flight - it holds the repository and will need the referrers mutex - while
    the ticker's collection waits for it and referrers listings of the same repository arrive: all of them come to an end"""
    conf = mkconf(store=store, freq_ms=rng.choice([3, 5, 10]))
    steps = base_steps(("dst",))
    subj = manifest(0)
    art = image_manifest(desc(MT_EMPTY, b"{}"), [desc(MT_LAYER, b"layer-shared")], subject=desc(MT_OCI_M, subj),
                         artifact_type="application/vnd.example.sig", annotations={"n": str(rng.randrange(1000))})
    put = manifest_put("dst", dg("sha256", art), art, ctype=MT_OCI_M)
    listing = [referrers("dst", dg("sha256", subj), None)["impl"] for _ in range(rng.randrange(1, 3))]
    mids = [special("sleep", secs=0.04), dict(kind="async", impl=dict(op="async", par=[listing]), model="(skip)"), special("sleep", secs=0.05)]
    steps.append(split(put, len(art) // 2, mids))
    steps.append(dict(kind="join", impl=dict(op="join", secs=3.0), model="(skip)", must_complete="the referrers listings"))
    steps += [referrers("dst", dg("sha256", subj), None), tag_list("dst"), special("close")]
    return dict(id=cid, conf=conf, steps=steps, scenario="referrers-during-collection")


def sc_timer_vs_last_session(rng, cid, store):
    """the only open upload session of a repository ends (cancelled, or completed) at the moment the expiry timer of the session
    cache fires, many times over with microsecond offsets: the end of the session and the timer's prune both come to an end"""
    grace = rng.choice([2, 3])
    conf = mkconf(store=store, withsubj=False, grace_ms=grace)
    steps = [dict(kind="timerrace", impl=dict(op="timerrace", repo="probe", secs=grace / 1000.0, n=400 if store == "mem" else 150), model="(skip)"),
             timed(tag_list("probe"), 3000), special("close")]
    return dict(id=cid, conf=conf, steps=steps, scenario="session-end-vs-expiry-timer")


def sc_cancelled(rng, cid, store):
    """requests whose client went away before they were served (context already cancelled), to an existing repository, while
    collections run: they may be refused, but the next collection, later requests and Close complete"""
    conf = mkconf(store=store, withsubj=False, freq_ms=rng.choice([0, 0, 20]))
    steps = base_steps(("a",))
    for _ in range(rng.randrange(6, 14)):
        st = rng.choice([tag_list("a"), manifest_get("a", "v1"), blob_get("a", dg("sha256", b"layer-shared")), upload_post("a")])
        steps.append(timed(st, -1))
        if rng.random() < 0.2:
            steps.append(dict(kind="gc", impl=dict(op="gc", repo="a"), model="(skip)"))
    steps += [dict(kind="gc", impl=dict(op="gc", repo="a"), model="(skip)"), timed(tag_list("a"), 3000), special("close")]
    return dict(id=cid, conf=conf, steps=steps, scenario="cancelled-requests-then-collection")


def sc_gc_cycle(rng, cid, store):
    """a hand-written index.json whose entries are listed under media types that are not manifest types and name each other as
    referrers subject: the collection (explicit, and the one Close runs) must still come to an end"""
    b1, b2 = b"blob-one-%d" % rng.randrange(1000), b"blob-two-%d" % rng.randrange(1000)
    d1, d2 = dg("sha256", b1), dg("sha256", b2)
    mt = rng.choice(["application/octet-stream", MT_LAYER, "text/plain"])
    ents = [{"mediaType": mt, "digest": d1, "size": len(b1), "annotations": {"org.opencontainers.image.ref.name": "t1"}},
            {"mediaType": mt, "digest": d2, "size": len(b2), "annotations": {"org.olareg.referrer.subject": d1}},
            {"mediaType": mt, "digest": d1, "size": len(b1), "annotations": {"org.olareg.referrer.subject": d2}}]
    rng.shuffle(ents)
    idx = {"schemaVersion": 2, "mediaType": MT_OCI_I, "annotations": {"org.olareg.referrer.convert": "true"}, "manifests": ents}
    seed = [dict(path="a/oci-layout", b64=b64(b'{"imageLayoutVersion":"1.0.0"}')), dict(path="a/index.json", b64=b64(jdump(idx))),
            dict(path="a/blobs/sha256/" + d1.split(":")[1], b64=b64(b1)), dict(path="a/blobs/sha256/" + d2.split(":")[1], b64=b64(b2))]
    steps = [tag_list("a"), dict(kind="gc", repo="a", impl=dict(op="gc", repo="a"), model="(skip)"), tag_list("a"), special("close")]
    conf = mkconf(store="dir", withsubj=rng.choice([True, True, False]), dangling=rng.choice([False, True]), grace_ms=rng.choice([-1, 3600000]))
    return dict(id=cid, conf=conf, steps=steps, seed=seed, scenario="gc-referrer-cycle")


def find_hangs(res, path=""):
    """(where, text) for every stalled step, also inside par / join results"""
    out = []
    if isinstance(res, dict):
        if (res.get("err") or "").startswith("HANG"):
            out.append((path, res["err"]))
        for ti, th in enumerate(res.get("par") or []):
            for k, r in enumerate(th):
                out += find_hangs(r, "%s/%d.%d" % (path, ti, k))
    return out


def run(ctx):
    ok_build, blog = ctx.coq_build()
    ok_props, plog = ctx.coq_props() if ok_build else (False, blog)
    binp = api_binary(ctx)
    rng = ctx.rng
    reps = 1 if ctx.tier == "quick" else 25
    cases = []
    for _ in range(reps):
        for store in ("mem", "dir"):
            for f, n in ((sc_waiter, 4), (sc_close_ticker, 3), (sc_uploads, 4), (sc_mixed, 5), (sc_gc_cycle, 2), (sc_self_mount, 2), (sc_unknown_session, 4), (sc_close_queued, 3), (sc_cancelled, 3), (sc_referrers_during_collection, 3), (sc_timer_vs_last_session, 2), (sc_cache_timer, 2)):
                for _ in range(n):
                    if f is sc_gc_cycle and store != "dir":
                        continue
                    cases.append(f(rng, len(cases) + 1, store))
    if ctx.replay:
        r = json.load(open(ctx.replay))
        r = r.get("replay", r)
        c = unreplay(r["case"])
        c["id"] = 1
        cases = [c] * 1
    os.environ["VERIF_STEP_TIMEOUT_MS"] = "6000"
    try:
        iouts = run_api_isolated(ctx, binp, cases, name="stall", procs=8)
    finally:
        os.environ.pop("VERIF_STEP_TIMEOUT_MS", None)
    nstall = 0
    per = {}
    for c in cases:
        io = iouts[c["id"]]
        per[c["scenario"]] = per.get(c["scenario"], 0) + 1
        hangs = []
        for k, r in enumerate(io["steps"]):
            hangs += [("step %d%s" % (k, w), t) for w, t in find_hangs(r)]
            st = c["steps"][k] if k < len(c["steps"]) else {}
            if st.get("kind") == "split":
                for j, m in enumerate((r.get("par") or [[]])[0]):
                    hangs += [("step %d mid %d%s" % (k, j, w), t) for w, t in find_hangs(m)]
            if r.get("panic"):
                ctx.violation("%s: handler panicked: %s" % (c["scenario"], r["panic"]), dict(case=replayable(c), stack=r.get("err")), "C12:panic")
            if st.get("within_ms"):
                for m, mr in [(st, r)]:
                        jr = ((mr.get("par") or [[]])[0] or [{}])[0]
                        if (jr.get("ms") or 0) > m["within_ms"]:
                            ctx.violation("%s (%s store): %s was answered (%s) after %d ms: it waited inside the repository cache, whose mutex the timer keeps while its collection of dst waits for the request that holds dst, and that wait does not look at the context"
                                          % (c["scenario"], c["conf"]["store"], m["must_complete"], jr.get("status"), jr.get("ms")), dict(case=replayable(c), latency_ms=jr.get("ms")),
                                          "C12:cache-timer-collection-blocks-every-repository")
            if st.get("kind") == "split":
                # a request to another repository must not be held up by the waiters of this one
                for j, (m, mr) in enumerate(zip(st["mids"], (r.get("par") or [[]])[0])):
                    if m.get("must_complete") and m.get("kind") == "tags" and (mr.get("ms") or 0) > 350:
                        ctx.violation("%s (%s store): %s took %d ms: it was blocked behind the requests waiting for the collection of the other repository"
                                      % (c["scenario"], c["conf"]["store"], m["must_complete"], mr.get("ms")), dict(case=replayable(c), latency_ms=mr.get("ms")),
                                      "C12:blocked-other-repo")
        if io.get("fatal") and not hangs:
            hangs.append(("case", io["fatal"]))
        if hangs:
            nstall += 1
            where, text = hangs[0]
            sig = "C12:stall-%s" % c["scenario"]
            alltext = "\n".join(t for _, t in hangs)
            blocks = re.split(r"\n\s*\n", alltext)
            side_a = any(re.search(r"prune(Count|Age)", b) and "RepoGet.func" in b for b in blocks)          # prune holds cache.mu, waits for the session
            side_b = any(re.search(r"dirRepoUpload\)\.(Close|Cancel|Write)", b) and re.search(r"Cache\[\.\.\.\]\)\.(Delete|Get)", b) for b in blocks)   # session held, waits for cache.mu
            if side_a and side_b:
                # eviction / expiry of a session (cache.mu, then the session's mutex through PrunePreFn) against the completion or
                # cancellation of that session (session mutex, then cache.mu): finding C12-F45
                sig = "C12:evict-vs-complete-deadlock"
            ctx.violation("%s (%s store, tick %s): %s did not complete: %s" % (c["scenario"], c["conf"]["store"], c["conf"].get("freq_us") or c["conf"].get("freq_ms"), where, text.split("\n")[0]),
                          dict(case=replayable(c), stalled=[w for w, _ in hangs], goroutines=text[:12000]), sig)
    if not ok_props:
        ctx.violation("proof obligations of Props_C12.v no longer check (lock discipline, lock order across calls, token and reference conservation at the collection gate - all on tables regenerated from the source)",
                      dict(theorem_file="coq/Props_C12.v", log=plog[-2500:]), "C12:proof", nofail=not ctx.violations)
    ctx.coverage.update(dict(evaluations=len(cases), distinct_nontrivial=len(cases),
                             rule="stall scenarios on the real server (ServeHTTP in-process, real ticker / cache timers / eviction goroutines) under a 6 s watchdog per step; non-trivial = every case (each has concurrent or background activity)",
                             scenarios=per, traces_validated_against_impl=len(cases) - nstall, correspondence_mismatches=0 if ok_props else 1, stalls=nstall, exhaustive=False))
    ctx.assumptions = ["blocking waits (R1) are checked per function on source-order statements; the lock order (R2) is also checked across calls on the call graph resolved by go/types (calls through function values are not resolved: the callbacks handed to a cache are simulated under that cache's mutex; the two store implementations are assumed not to share objects); the waits allowed under a global mutex are listed in Sync.allowed_waits, the one known inversion in LockOrder.known_sites",
                       "channel waits other than the per-repository collection token (stop channels, ticker, context) are cancellation signals and not counted as blocking",
                       "the stall scenarios sample schedules; a schedule that hangs is a failing input, the absence of one in a run is not a proof - the theorem is"]
