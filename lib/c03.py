"""C03 - tags form a last-writer-wins map; listing and paging are exact.
Theorems: coq/Props_C03.v (tag_page over the index model, last-writer-wins through Index.v).
Tie: differential run of request histories on the real server and the extracted model,
plus the direct oracle below (a reference tag map kept by the harness)."""
import json
import apicheck
import oracles
from api import *
import gen

LEVEL = "proof"
FULL = [MT_OCI_M, MT_OCI_I, MT_DOCK_M, MT_DOCK_I]
PROFILE = dict(blob=1, chunked=0.3, mount=0.2, image=5, index=2, artifact=1, mread=4, bread=0.5, tags=6, refs=0.5,
               mdel=3, bdel=0, sess=0.2, bad=0.7, retag=1.5)


def go_lt(a, b):
    return a.encode() < b.encode()


def res_mt(st, j):
    return (j or {}).get("mediaType") or ((st["impl"].get("headers") or {}).get("Content-Type") or [""])[0]


def resurrected_by_restart(case, io, k, repo, digest):
    """[digest] was deleted by digest, and at a later restart an index that lists it was still there: the child list rebuilt from
    the directory names it again (finding F52), and it stays until it is deleted by digest once more"""
    import c10
    back = False
    for j in range(k):
        st, r = case["steps"][j], io["steps"][j]
        if st["kind"] == "restart":
            if c10.deleted_child_of_live_index(case, io, j, repo, digest):
                back = True
        elif st.get("repo") == repo and st["kind"] == "mdel" and r.get("status") == 202 and st["arg"] == digest:
            back = False
        elif st.get("repo") == repo and st["kind"] == "mput" and r.get("status") == 201 and (r.get("headers") or {}).get("Docker-Content-Digest", [""])[0] == digest:
            back = False
    return back


def oracle(ctx, case, io):
    tagmap = {}
    present = {}
    for k, (st, res) in enumerate(zip(case["steps"], io["steps"])):
        if res.get("panic"):
            return
        repo = st.get("repo")
        tm = tagmap.setdefault(repo, {})
        pr = present.setdefault(repo, set())
        kind = st["kind"]
        hist = lambda: dict(case=replayable(dict(case, steps=case["steps"][:k + 1])), response=dict(status=res.get("status"), headers=res.get("headers")))
        o = canon_impl(st, res, SidMap())
        if kind == "mput" and st.get("must_accept") and res["status"] != 201 and case["conf"].get("push", True) and not case["conf"].get("ro"):
            ctx.violation("push of a well-formed image under the tag %r (%d characters, allowed by the tag grammar) answered %s" % (st["arg"], len(st["arg"]), res["status"]),
                          hist(), "C03:valid-tag-refused")
            return
        if kind == "mput" and res["status"] == 201:
            d = o["digest"]
            pr.add(d)
            if gen.is_tag_py(st["arg"]):
                tm[st["arg"]] = d
            # an accepted index references its children again (their blobs were checked present): they are addressable by digest
            try:
                j = json.loads(st["body"].decode("utf-8"))
                kids = [x.get("digest") for x in (j.get("manifests") or []) if isinstance(x, dict)] if isinstance(j, dict) else []
            except Exception:
                kids = []
            if oracles.kind_of_mt(res_mt(st, j if kids else None)) == "index" or kids:
                for x in kids:
                    if isinstance(x, str):
                        pr.add(x)
        elif kind == "mdel" and res["status"] == 202:
            if gen.is_tag_py(st["arg"]):
                tm.pop(st["arg"], None)
            else:
                pr.discard(st["arg"])
                for t in [t for t, d in tm.items() if d == st["arg"]]:
                    del tm[t]
        elif kind == "blobdel" and res["status"] == 202:
            # outside this property's histories (the generator profile has no blob deletes)
            pr.discard(st["arg"])
            for t in [t for t, d in tm.items() if d == st["arg"]]:
                del tm[t]
        elif kind == "mget" and st["accept"] == FULL and not st.get("rng"):
            if gen.is_tag_py(st["arg"]):
                want = tm.get(st["arg"])
                if want is None and res["status"] != 404:
                    ctx.violation("tag %s resolves (%s) although it was never pushed or was deleted" % (st["arg"], res["status"]), hist(), "C03:ghost-tag")
                elif want is not None and (res["status"] != 200 or o["digest"] != want):
                    ctx.violation("tag %s does not resolve to the manifest last pushed under it (got %s %s, want %s)"
                                  % (st["arg"], res["status"], o.get("digest"), want), hist(), "C03:tag-lww")
            elif gen.dvalid_py(st["arg"]):
                restarted = any(x["kind"] == "restart" for x in case["steps"][:k])
                if st["arg"] in pr and res["status"] != 200:
                    # (after a restart: a manifest that only the in-memory child list recorded - its index.json entry moved there when
                    #  an index listing it was pushed - is gone once that index was deleted: finding F35)
                    import c10
                    sig = "C03:digest-lost-child-of-deleted-index-after-restart" if (restarted and c10.parents_deleted(case, io, k, repo, st["arg"])) else "C03:digest-lost"
                    ctx.violation("manifest %s not addressable by digest (%s) although pushed and not deleted by digest"
                                  % (st["arg"][:19], res["status"]), hist(), sig)
                elif st["arg"] not in pr and res["status"] == 200:
                    # (after a restart: the child list is rebuilt from the indexes that still list the deleted manifest: finding F52)
                    import c10
                    sig = "C03:digest-ghost-deleted-child-of-live-index-after-restart" if (restarted and resurrected_by_restart(case, io, k, repo, st["arg"])) else "C03:digest-ghost"
                    ctx.violation("manifest %s addressable after its deletion by digest" % st["arg"][:19], hist(), sig)
        elif kind == "tags":
            if res["status"] != 200:
                ctx.violation("tag listing answered %s (n=%r last=%r)" % (res["status"], st["n"], st["last"]), hist(), "C03:list-status")
                continue
            if st.get("head"):
                continue
            last = st["last"] or ""
            exp = sorted((t for t in tm if go_lt(last, t)), key=lambda t: t.encode())
            got = o["tags"]
            n = st["n"]
            if n is not None and re.match(r"^[0-9]+$", n) and len(n) < 18:
                ni = int(n)
                want = exp[:ni] if ni < len(exp) else exp
                wlink = want[-1] if (0 < ni < len(exp)) else ""
                if got != want or o["link"] != wlink:
                    ctx.violation("tag page n=%s last=%r is %s link=%r, expected %s link=%r" % (n, last, got, o["link"], want, wlink), hist(), "C03:list-page")
            elif n is None or n == "":
                if got != exp or o["link"] != "":
                    ctx.violation("tag listing last=%r is %s, expected %s" % (last, got, exp), hist(), "C03:list-exact")
            else:
                # negative / non-numeric / oversized n: a valid listing (a sorted duplicate-free part of the resolvable tags)
                if got is None or got != sorted(set(got), key=lambda t: t.encode()) or not set(got) <= set(exp):
                    ctx.violation("tag listing with n=%r is not a valid listing: %s (resolvable: %s)" % (n, got, exp), hist(), "C03:list-valid")
        elif kind == "tagwalk":
            pages = o["pages"]
            exp = sorted(tm, key=lambda t: t.encode())
            if any(p.get("status") != 200 or p.get("tags") is None for p in pages):
                ctx.violation("paging walk n=%s hit a non-200 page" % st["n"], hist(), "C03:walk-status")
                continue
            flat = [t for p in pages for t in p["tags"]]
            if flat != exp:
                ctx.violation("paging walk n=%s visits %s, expected each of %s exactly once in order" % (st["n"], flat, exp), hist(), "C03:walk")
            if any(len(p["tags"]) > int(st["n"]) for p in pages):
                ctx.violation("a page exceeds n=%s" % st["n"], hist(), "C03:walk-size")
            if pages and pages[-1].get("link"):
                ctx.violation("paging walk n=%s did not terminate within 60 pages" % st["n"], hist(), "C03:walk-loop")


def boundary_tags(w, rng):
    """tags at the edges of the grammar [a-zA-Z0-9_][a-zA-Z0-9._-]{0,127}: the longest ones, one character ones, every kind of
    character in every position; pushed, resolved, listed, paged, deleted - and strings just outside the grammar"""
    repo = w.repo()
    cfg = b"{}"
    w.contents.add(cfg)
    w.add(upload_post(repo, digest=dg("sha256", cfg), body=cfg))
    if cfg not in w.blobs[repo]:
        w.blobs[repo].append(cfg)
    valid = ["a" * 128, "_" + "." * 127, "Z9_" + "-" * 124, "0" * 127 + "-", "_", "9", "A", "x" * 127, "a.b-c_d" * 18 + "ab"]
    invalid = ["a" * 129, "." + "a" * 5, "-" + "a" * 127, "a" * 128 + ".", ""]
    for t in rng.sample(valid, rng.randrange(2, 5)):
        body = image_manifest(desc(MT_CFG, cfg), [], annotations={"edge": str(len(w.steps))})
        w.contents.add(body)
        k = w.add(manifest_put(repo, t, body, ctype=MT_OCI_M))
        w.steps[k]["must_accept"] = True
        w.manifests[repo].append((body, MT_OCI_M))
        w.tags[repo].add(t)
        w.add(manifest_get(repo, t, head=rng.random() < 0.3))
        w.add(tag_list(repo, "1", rng.choice([None, t[:-1], t])))
    w.walk_tags(repo)
    for t in rng.sample(invalid, 2):
        if t:
            body = image_manifest(desc(MT_CFG, cfg), [], annotations={"edge": str(len(w.steps))})
            w.contents.add(body)
            w.add(manifest_put(repo, t, body, ctype=MT_OCI_M))
            w.add(manifest_get(repo, t))
    for t in sorted(w.tags[repo]):
        if len(t) > 100 and rng.random() < 0.5:
            w.add(manifest_delete(repo, t))
            w.tags[repo].discard(t)
            w.add(manifest_get(repo, t))
    w.walk_tags(repo)


def make_cases(ctx, first):
    n, steps = (400, 45) if ctx.tier == "quick" else (12000, 60)
    # (Close() of the directory store collects every open repository; withsubj=False keeps that collection from removing anything
    #  these histories read afterwards: what a collection may remove is C05 / C06's)
    confs = [mkconf(store="mem"), mkconf(store="dir", withsubj=False), mkconf(store="mem", referrer=False), mkconf(store="dir", blobdelete=False, withsubj=False)]
    cases = []
    for i in range(n):
        conf = confs[i % len(confs)]
        w = gen.World(ctx.rng, conf, profile=PROFILE)
        w.run(steps // 2)
        if conf["store"] == "dir" and ctx.rng.random() < 0.6:
            # tags, and their deletion, are on disk: the listing and every tag answer the same after the server was restarted
            for r_ in w.repos:
                w.walk_tags(r_)
            w.add(restart_step())
            for r_ in w.repos:
                w.walk_tags(r_)
            w.probe()
        if i % 8 in (5, 6):
            boundary_tags(w, ctx.rng)
        w.run(len(w.steps) + steps // 2)
        w.probe()
        cases.append(dict(id=first + i, conf=conf, steps=w.steps, contents=sorted(w.contents)))
    return cases


def run(ctx):
    apicheck.run(ctx, "C03", make_cases, oracle,
                 assumptions=["histories of this check contain no blob deletes and no collections (a tag whose manifest blob was deleted stays listed; that interplay belongs to C05/C06)"])
