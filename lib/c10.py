"""C10 - the directory is always a valid OCI layout equal to the API state.
Theorems: coq/Props_C10.v (every stored blob is stored under the digest of its bytes in every reachable state, also through
collections and restarts; re-opening a directory store keeps blobs, top-level index entries and the conversion mark, so every
read that resolves there answers the same; the handlers do not look at the store type).
Tie: differential histories (pushes with all algorithms, deletes, collections at any point incl. between the uploads and the
manifest of a first push, restarts) on the directory store, with direct oracles:
  (a) after every few requests the repository directories are read back file by file and validated as OCI layouts that
      describe exactly what the API lists at that moment;
  (b) all read endpoints answer the same before Close and after a new server is opened on the directory
      (directory store and memory store layered over the directory);
  (c) the same requests against the memory store give the same answers."""
import base64
import hashlib
import json

import apicheck
import oracles
from api import *
import gen
import gcgen

LEVEL = "proof"
PROFILE = dict(blob=3, chunked=2, mount=1.5, image=5, index=2.5, artifact=2, mread=2, bread=1.5, tags=1, refs=1,
               mdel=1.5, bdel=0.5, sess=0.8, bad=0.5, interrupt=0, retag=1.2)
REPOS = ["a", "a/b", "c1"]


def probe_steps(w, mark):
    """every read endpoint on everything the generator believes was pushed"""
    k0 = len(w.steps)
    w.probe()
    for s in w.steps[k0:]:
        s["rprobe"] = mark
    return k0, len(w.steps)


def nest(w, repo):
    """an untagged image inside an untagged index inside a tagged index (children two levels below index.json)"""
    rng = w.rng
    cfg = b"{}"
    w.add(upload_post(repo, digest=dg("sha256", cfg), body=cfg))
    m = image_manifest(desc(MT_CFG, cfg), [], annotations={"nest": str(len(w.steps))})
    w.add(manifest_put(repo, dg("sha256", m), m, ctype=MT_OCI_M))
    mt1 = rng.choice([MT_OCI_I, MT_DOCK_I])
    i1 = index_manifest([desc(MT_OCI_M, m)], media_type=mt1, annotations={"level": "1-%d" % len(w.steps)} if mt1 == MT_OCI_I else None)
    w.add(manifest_put(repo, dg("sha256", i1), i1, ctype=mt1))
    i2 = index_manifest([desc(mt1, i1)], media_type=MT_OCI_I, annotations={"level": "2-%d" % len(w.steps)})
    tag = rng.choice(["nested", "t1"])
    w.add(manifest_put(repo, tag, i2, ctype=MT_OCI_I))
    for b, mt in ((m, MT_OCI_M), (i1, mt1), (i2, MT_OCI_I)):
        w.contents.add(b)
        w.manifests[repo].append((b, mt))
    w.tags[repo].add(tag)


def make_cases(ctx, first):
    n, steps = (150, 40) if ctx.tier == "quick" else (4000, 60)
    rng = ctx.rng
    cases = []
    for i in range(n):
        variant = i % 4
        # re-opening is compared under the default policy (Close collects every repository: with the default grace period
        # it removes nothing of these histories); collections under the other policies are part of the other variants
        pol = dict() if variant in (0, 2) else rng.choice([dict(), dict(untagged=True), dict(grace_ms=-1), dict(grace_ms=-1), dict(dangling=True), dict(untagged=True, grace_ms=-1), dict(untagged=True, grace_ms=-1)])
        conf = mkconf(store="dir", withsubj=False, **pol)
        if (i // 4) % 5 == 3:
            conf["referrer"] = False          # (the referrers API switched off: the layout does not say so, the configuration does)
        w = gen.World(rng, conf, repos=REPOS, profile=PROFILE)
        if (i // 4) % 3 == 1:
            # the first request to a repository that does not exist yet is a read
            for rp in rng.sample(REPOS, rng.randrange(1, len(REPOS) + 1)):
                w.add(rng.choice([tag_list(rp), manifest_get(rp, "t1", head=True)]))
        marks = 0
        target = steps
        while len(w.steps) < target:
            w.run(len(w.steps) + rng.randrange(2, 7))
            r = rng.random()
            if r < 0.35:
                w.add(special("snapshot", full=True))
                for repo in REPOS:
                    x = tag_list(repo)
                    x["after_snapshot"] = True
                    w.add(x)
            elif r < 0.42 and variant in (1, 3):
                # empty a repository, collect it (an empty repository directory is removed), push to the same name again
                repo = rng.choice(REPOS)
                for t in sorted(w.tags[repo]):
                    w.add(manifest_delete(repo, t))
                for b, mt in list(w.manifests[repo]):
                    w.add(manifest_delete(repo, dg("sha256", b)))
                w.tags[repo] = set()
                w.manifests[repo] = []
                w.subjects[repo] = set()
                w.add(gcgen.gc_step(repo))
                w.add(special("snapshot", full=True))
                for rp in REPOS:
                    x = tag_list(rp)
                    x["after_snapshot"] = True
                    w.add(x)
            elif r < 0.55:
                # a collection at any point (the generator also leaves blobs without a manifest and open sessions around)
                w.add(gcgen.gc_step(rng.choice(REPOS)))
            elif 0.70 <= r < 0.85 and variant == 1:
                # content that has grown old is uploaded again through a session just before the only manifest naming it goes away
                # and a collection runs: uploaded a moment ago, in whichever store
                repo = rng.choice(REPOS)
                cfg_, lay_ = b"{}", b"old-layer-%d" % len(w.steps)
                w.contents.add(lay_)
                w.ensure_blob(repo, cfg_)
                w.ensure_blob(repo, lay_)
                m_ = image_manifest(desc(MT_CFG, cfg_), [desc(MT_LAYER, lay_)], annotations={"old": str(len(w.steps))})
                w.contents.add(m_)
                w.add(manifest_put(repo, "oldimg", m_, ctype=MT_OCI_M))
                w.add(gcgen.age_step(repo, "", 7200))
                ks_ = w.add(upload_post(repo))
                w.add(upload_put(repo, "$SID%d$" % ks_, None, dg("sha256", lay_), state_token(0), lay_))
                w.add(manifest_delete(repo, "oldimg"))
                w.add(manifest_delete(repo, dg("sha256", m_)))
                w.add(gcgen.gc_step(repo))
                w.add(blob_get(repo, dg("sha256", lay_)))
                w.add(blob_get(repo, dg("sha256", cfg_)))
            elif r < 0.70 and variant in (0, 2):
                marks += 1
                if rng.random() < 0.4:
                    nest(w, rng.choice(REPOS))
                probe_steps(w, ("pre", marks))
                if variant == 0 or rng.random() < 0.5:
                    w.add(restart_step())
                else:
                    conf2 = dict(conf, store="memdir")
                    w.add(dict(kind="freeze", impl=dict(op="restart", conf=conf2), model="(restart)"))
                    w.memdir = True
                probe_steps(w, ("post", marks))
                if getattr(w, "memdir", False):
                    # further requests against the memory store over the directory: the twin below sends the same requests
                    # to a directory store re-opened at the same point
                    w.freeze_at = len(w.steps)
                    extra_n = rng.randrange(8, 25)
                    bl = [b for r0 in REPOS for b in w.blobs[r0]]
                    while len(w.steps) < w.freeze_at + extra_n:
                        w.run(len(w.steps) + 1)
                        if rng.random() < 0.25:
                            # a collection of the memory store over the directory: what the directory holds stays listed and served
                            w.add(gcgen.gc_step(rng.choice(REPOS)))
                            w.probe()
                        if bl and rng.random() < 0.3:
                            # delete (twice), push again, delete again: blobs that exist as files of the backing directory
                            repo = rng.choice(REPOS)
                            if w.blobs[repo]:
                                data = rng.choice(w.blobs[repo])
                                d = dg("sha256", data)
                                for _ in range(rng.randrange(1, 3)):
                                    w.add(blob_delete(repo, d))
                                    w.add(blob_get(repo, d))
                                if rng.random() < 0.6:
                                    w.add(upload_post(repo, digest=d, body=data))
                                    w.add(blob_get(repo, d))
                                    w.add(blob_delete(repo, d))
                                    w.add(blob_get(repo, d))
                    break
        if variant in (1, 3) and (i // 4) % 2 == 0:
            # a repository that holds nothing any more but whose directory holds another repository (a and a/b): the collection
            # that finds it empty leaves either a layout or nothing of its own there, and the nested one untouched
            cfg_ = b"{}"
            w.contents.add(cfg_)
            w.add(upload_post("a/b", digest=dg("sha256", cfg_), body=cfg_))
            if cfg_ not in w.blobs["a/b"]:
                w.blobs["a/b"].append(cfg_)
            mi_ = image_manifest(desc(MT_CFG, cfg_), [], annotations={"inner": str(i)})
            w.contents.add(mi_)
            w.add(manifest_put("a/b", "inner", mi_, ctype=MT_OCI_M))
            w.manifests["a/b"].append((mi_, MT_OCI_M))
            w.tags["a/b"].add("inner")
            for t in sorted(w.tags["a"]):
                w.add(manifest_delete("a", t))
            for b, mt in list(w.manifests["a"]):
                w.add(manifest_delete("a", dg("sha256", b)))
            w.tags["a"] = set()
            w.manifests["a"] = []
            w.subjects["a"] = set()
            for _ in range(2):
                w.add(gcgen.age_step("a", "", 7200))
                w.add(gcgen.gc_step("a"))
                w.add(special("snapshot", full=True))
                for rp in REPOS:
                    x = tag_list(rp)
                    x["after_snapshot"] = True
                    w.add(x)
            w.add(manifest_get("a/b", "inner"))
        w.add(special("snapshot", full=True))
        for repo in REPOS:
            x = tag_list(repo)
            x["after_snapshot"] = True
            w.add(x)
        w.probe()
        case = dict(id=first + len(cases), conf=conf, steps=w.steps, contents=sorted(w.contents), variant=variant)
        if rng.random() < 0.25:
            # directories that an interrupted initialisation (or another tool) left behind: an oci-layout file that is empty,
            # truncated or of another version, no index.json - the first push must turn them into valid layouts
            case["seed"] = [dict(path=r_ + "/oci-layout", b64=b64(rng.choice([b"", b'{"imageLayoutVer', b'{"imageLayoutVersion":"0.9.0"}', b"{}"])))
                            for r_ in rng.sample(REPOS, rng.randrange(1, len(REPOS) + 1))]
        if getattr(w, "memdir", False):
            # the memory store over a directory is outside the model
            seen = False
            for s in case["steps"]:
                if s["kind"] == "freeze":
                    seen = True
                if seen:
                    s["model"] = "(skip)"
        cases.append(case)
        if getattr(w, "memdir", False):
            # the same requests with the directory store re-opened where the twin switches to the memory store over the directory
            st2 = [dict(x) for x in case["steps"]]
            for j, x in enumerate(st2):
                if x["kind"] == "freeze":
                    st2[j] = dict(restart_step(), model="(skip)")
            cases.append(dict(case, id=first + len(cases), steps=st2, twin=case["id"], twin_kind="memdir"))
        if variant == 1:
            # the same requests against the memory store (collections included; no restarts in this variant)
            c2 = dict(case, id=first + len(cases), conf=dict(conf, store="mem"), steps=[dict(s) for s in case["steps"]], twin=case["id"])
            cases.append(c2)
    return cases


def hashname(alg, data):
    return hashlib.new(alg, data).hexdigest()


def blob_api_deleted(case, io, k, repo, digest):
    """the blob <digest> of <repo> was last removed by an acknowledged DELETE /blobs/ before step k (finding F64)"""
    gone = False
    for j in range(k):
        st, r = case["steps"][j], io["steps"][j]
        if st.get("repo") != repo:
            continue
        if st["kind"] == "blobdel" and st.get("arg") == digest and r.get("status") == 202:
            gone = True
        elif r.get("status") == 201 and (r.get("headers") or {}).get("Docker-Content-Digest", [""])[0] == digest:
            gone = False
    return gone


def check_layout(ctx, case, k, files, tags_api, io=None):
    """files: snapshot of the root directory; every directory holding index.json must be a valid layout equal to the API state"""
    by = {f["path"]: f for f in files}
    rep = lambda **kw: oracles.hist(case, k, None, **kw)
    for p, f in sorted(by.items()):
        if f["dir"] or not p.endswith("index.json") or "/blobs/" in p:
            continue
        repo = p[:-len("/index.json")] if "/" in p else ""
        if repo not in REPOS:
            continue
        pre = repo + "/"
        lay = by.get(pre + "oci-layout")
        if lay is None:
            ctx.violation("repository %s has index.json but no oci-layout file" % repo, rep(repo=repo), "C10:no-oci-layout")
            return
        try:
            lj = json.loads(base64.b64decode(lay.get("b64") or ""))
            assert lj.get("imageLayoutVersion") == "1.0.0"
        except Exception:
            ctx.violation("oci-layout of %s is not the supported version: %r" % (repo, base64.b64decode(lay.get("b64") or "")[:80]), rep(repo=repo), "C10:oci-layout-content")
            return
        try:
            idx = json.loads(base64.b64decode(f.get("b64") or ""))
            mans = idx.get("manifests")
            if not isinstance(mans, list):
                # (the image index of the OCI image specification REQUIRES manifests to be an array: null does not validate)
                ctx.violation("index.json of %s does not hold an array of manifests: \"manifests\": %s" % (repo, json.dumps(mans)), rep(repo=repo, index=idx), "C10:index-manifests-not-an-array")
                return
            assert idx.get("schemaVersion") == 2
        except Exception as e:
            ctx.violation("index.json of %s does not parse (%s)" % (repo, e), rep(repo=repo), "C10:index-unparseable")
            return
        tags = {}
        for d in mans:
            t = (d.get("annotations") or {}).get("org.opencontainers.image.ref.name")
            if t:
                if t in tags:
                    ctx.violation("index.json of %s holds tag %s twice" % (repo, t), rep(repo=repo, index=idx), "C10:duplicate-tag")
                    return
                tags[t] = d["digest"]
            alg, _, hx = d["digest"].partition(":")
            bf = by.get("%sblobs/%s/%s" % (pre, alg, hx))
            if bf is None:
                sig = "C10:entry-without-blob"
                if io is not None and blob_api_deleted(case, io, k, repo, d["digest"]):
                    sig = "C10:entry-without-blob-after-blob-api-delete"
                ctx.violation("index.json of %s lists %s (%s) but blobs/%s/%s does not exist" % (repo, d["digest"], t or "untagged", alg, hx), rep(repo=repo, index=idx), sig)
                return
            if bf["size"] != d.get("size"):
                ctx.violation("index.json of %s records size %s for %s, the blob file has %d bytes" % (repo, d.get("size"), d["digest"], bf["size"]), rep(repo=repo, index=idx), "C10:entry-size")
                return
        # blobs stored as blobs/<alg>/<hex> with the content the name promises
        for q, g in by.items():
            if q.startswith(pre + "blobs/") and not g["dir"]:
                parts = q[len(pre):].split("/")
                if len(parts) != 3 or parts[1] not in ("sha256", "sha384", "sha512"):
                    if len(parts) >= 3 and parts[1] in REPOS + ["b"]:
                        continue
                    ctx.violation("unexpected file %s in the blob store of %s" % (q, repo), rep(repo=repo), "C10:stray-blob-file")
                    return
                data = base64.b64decode(g.get("b64") or "")
                if hashname(parts[1], data) != parts[2]:
                    ctx.violation("blob file %s of %s does not hash to its name" % (q, repo), rep(repo=repo), "C10:blob-name")
                    return
        # exactly the API-visible state: the tags the API lists are the tags of index.json
        api = tags_api.get(repo)
        if api is not None and sorted(api) != sorted(tags):
            ctx.violation("index.json of %s holds tags %s, the API lists %s" % (repo, sorted(tags), sorted(api)), rep(repo=repo, index=idx), "C10:tags-differ")
            return
    # a repository the API lists tags for must exist as a layout
    for repo, api in tags_api.items():
        if api and (repo + "/index.json") not in by:
            ctx.violation("the API lists tags %s for %s but the directory holds no index.json for it" % (api, repo), rep(repo=repo), "C10:no-index-json")
            return


def parents_deleted(case, io, k, repo, digest, depth=0):
    """was an index that lists [digest] pushed to [repo] and deleted again before step k (known finding F35)?  Also when the
    index that lists [digest] is itself only recorded as the child of an index that was deleted (a grandchild loses its record
    with its parent's)"""
    parents = {}       # digest of an accepted index listing [digest] -> tags it was pushed under
    for j in range(k):
        st, r = case["steps"][j], io["steps"][j]
        if st.get("repo") != repo:
            continue
        if st["kind"] == "mput" and r.get("status") == 201:
            try:
                jb = json.loads(st["body"].decode("utf-8"))
            except Exception:
                continue
            if isinstance(jb, dict) and any(isinstance(x, dict) and x.get("digest") == digest for x in (jb.get("manifests") or [])):
                d = (r.get("headers") or {}).get("Docker-Content-Digest", [""])[0]
                parents.setdefault(d, set()).add(st["arg"])
        elif st["kind"] == "mdel" and r.get("status") == 202:
            if st["arg"] in parents:
                return True
    if depth < 4:
        return any(parents_deleted(case, io, k, repo, p_, depth + 1) for p_ in parents)
    return False


def deleted_child_of_live_index(case, io, k, repo, digest):
    """was [digest] deleted by digest before step k while an index that lists it had been pushed to [repo] and not deleted
    (known finding F52: the deletion only removes the in-memory child entry; re-reading the directory lists it again)?"""
    parents, deleted = set(), False
    for j in range(k):
        st, r = case["steps"][j], io["steps"][j]
        if st.get("repo") != repo:
            continue
        if st["kind"] == "mput" and r.get("status") == 201:
            d = (r.get("headers") or {}).get("Docker-Content-Digest", [""])[0]
            if d == digest:
                deleted = False
            try:
                jb = json.loads(st["body"].decode("utf-8"))
            except Exception:
                continue
            if isinstance(jb, dict) and any(isinstance(x, dict) and x.get("digest") == digest for x in (jb.get("manifests") or [])):
                parents.add(d)
        elif st["kind"] == "mdel" and r.get("status") == 202:
            parents.discard(st["arg"])
            if st["arg"] == digest:
                deleted = True
    return deleted and bool(parents)


def oracle(ctx, case, io):
    if case["conf"]["store"] == "mem":
        return
    steps, res = case["steps"], io["steps"]
    sids = SidMap()
    frozen = False
    pre = {}
    for k, (st, r) in enumerate(zip(steps, res)):
        if r.get("panic"):
            return
        if st["kind"] == "freeze":
            frozen = True
        if st["kind"] == "snapshot" and not frozen:
            tags_api = {}
            for j in range(k + 1, min(k + 1 + len(REPOS), len(steps))):
                if steps[j].get("after_snapshot") and res[j].get("status") == 200:
                    try:
                        tags_api[steps[j]["repo"]] = json.loads(base64.b64decode(res[j].get("b64") or "")).get("tags") or []
                    except Exception:
                        pass
            check_layout(ctx, case, k, r.get("files") or [], tags_api, io)
        mk = st.get("rprobe")
        if mk:
            c = canon_impl(dict(st, model=None), r, sids)
            key = (st["kind"], st.get("repo"), st.get("arg"), st.get("head", False))
            if mk[0] == "pre":
                pre.setdefault(mk[1], {})[key] = (k, c)
            else:
                p = pre.get(mk[1], {}).get(key)
                if p and p[1] != c:
                    a, b = p[1], c
                    diff = {x: (a.get(x), b.get(x)) for x in set(a) | set(b) if a.get(x) != b.get(x)}
                    how = "memory store opened over the directory" if frozen else "new server on the same directory"
                    was_child = (st["kind"] == "mget" and a.get("status") == 200 and b.get("status") == 404
                                 and parents_deleted(case, io, k, st.get("repo"), st.get("arg")))
                    back = (st["kind"] == "mget" and a.get("status") == 404 and b.get("status") == 200
                            and deleted_child_of_live_index(case, io, k, st.get("repo"), st.get("arg")))
                    ctx.violation("%s %s/%s answers differently after re-opening (%s): %s" % (st["kind"], st.get("repo"), st.get("arg"), how, str(diff)[:300]),
                                  oracles.hist(case, k, r, before=str(a)[:800], after=str(b)[:800]),
                                  "C10:reopen-%s%s" % (st["kind"], "-child-of-deleted-index" if was_child else ("-deleted-child-of-live-index" if back else "")))
                    return


def twin_oracle(ctx, cases, iouts):
    """the same requests against the memory store: every answer is the same"""
    byid = {c["id"]: c for c in cases}
    n = 0
    for c in cases:
        if "twin" not in c:
            continue
        d = byid[c["twin"]]
        im, idr = iouts[c["id"]], iouts[d["id"]]
        if im.get("fatal") or idr.get("fatal"):
            continue
        sm, sd = SidMap(), SidMap()
        n += 1
        for k, (st, rm, rd) in enumerate(zip(c["steps"], im["steps"], idr["steps"])):
            if st["kind"] in ("snapshot",) or "status" not in rm or "status" not in rd:
                continue
            a, b = canon_impl(dict(st, model=None), rd, sd), canon_impl(dict(st, model=None), rm, sm)
            if c.get("twin_kind") == "memdir" and st["kind"] not in ("blobget", "mget", "tags", "tagwalk", "refs", "refwalk", "uget"):
                # the property speaks of read requests; the memory store over a directory acknowledges the repeated delete of a
                # blob of the backing directory (202 where the directory store answers 404) - reads agree
                continue
            if c.get("twin_kind") == "memdir":
                # (sessions are numbered by creation: requests other than reads may open a session in one store only)
                a.pop("loc", None)
                b.pop("loc", None)
            if a != b:
                diff = {x: (a.get(x), b.get(x)) for x in set(a) | set(b) if a.get(x) != b.get(x)}
                if c.get("twin_kind") == "memdir":
                    # (here d is the case with the memory store over the directory, c the re-opened directory store)
                    sigm = "C10:memdir-dir-%s" % st["kind"]
                    if st["kind"] == "mget" and a.get("status") == 404 and b.get("status") == 200 and deleted_child_of_live_index(c, im, k, st.get("repo"), st.get("arg")):
                        # the re-opened directory store re-read index.json meanwhile (a collection does): finding F52, seen from the memory twin
                        sigm = "C10:reopen-mget-deleted-child-of-live-index"
                    ctx.violation("memory store over the directory and re-opened directory store answer %s %s/%s differently: %s" % (st["kind"], st.get("repo"), st.get("arg", ""), str(diff)[:300]),
                                  dict(case=replayable(dict(d, steps=d["steps"][:k + 1])), memdir=str(a)[:800], dir=str(b)[:800]), sigm)
                    break
                sig = "C10:mem-dir-%s" % st["kind"]
                if st["kind"] == "mget" and a.get("status") == 200 and b.get("status") == 404 and deleted_child_of_live_index(d, idr, k, st.get("repo"), st.get("arg")):
                    # the directory store re-read index.json meanwhile (a collection does): finding F52, seen from the memory twin
                    sig = "C10:reopen-mget-deleted-child-of-live-index"
                if st["kind"] == "mget" and a.get("status") == 404 and b.get("status") == 200 and parents_deleted(d, idr, k, st.get("repo"), st.get("arg")):
                    # ... and the mirror image, finding F35: the child of a deleted index is only in the in-memory child list, which
                    # the directory store rebuilt when it re-read index.json
                    sig = "C10:reopen-mget-child-of-deleted-index"
                ctx.violation("directory and memory store answer %s %s/%s differently: %s" % (st["kind"], st.get("repo"), st.get("arg", ""), str(diff)[:300]),
                              dict(case=replayable(dict(d, steps=d["steps"][:k + 1])), dir=str(a)[:800], mem=str(b)[:800]), sig)
                break
    return n


def run(ctx):
    res = {}

    def extra(cases, iouts):
        res["twins"] = twin_oracle(ctx, cases, iouts)

    apicheck.run(ctx, "C10", make_cases, oracle, extra=extra,
                 assumptions=["quiescent point = between two requests of a sequential history (concurrent histories are C11)",
                              "collections run through the synchronous hook with the configured policy; ticker-driven passes are C05/C06",
                              "repository names are those both stores accept"])
    if res:
        ctx.coverage["mem_dir_twin_histories"] = res["twins"]
