"""C08 - upload sessions are strictly sequential, isolated and leave no residue.
Theorems: coq/Props_C08.v.  Tie: differential histories over interleaved sessions with correct, stale,
future and malformed offsets/state tokens, ids used against other repositories, cancel, expiry
(synchronous age prune) and eviction (synchronous count prune) + the direct oracle."""
import apicheck
import oracles
from api import *
import gen

LEVEL = "proof"
PROFILE = dict(blob=3, chunked=8, mount=1.5, image=0.5, index=0.1, artifact=0.1, mread=0.2, bread=1, tags=0.1, refs=0.1,
               mdel=0.1, bdel=0.3, sess=6, bad=3.0)


def make_cases(ctx, first):
    n, steps = (400, 50) if ctx.tier == "quick" else (12000, 70)
    confs = [mkconf(store="mem"), mkconf(store="dir"), mkconf(store="dir", uploadmax=3), mkconf(store="mem", uploadmax=2),
             mkconf(store="dir", uploadmax=1), mkconf(store="mem", uploadmax=10)]
    cases = []
    rng = ctx.rng
    for i in range(n):
        conf = confs[i % len(confs)]
        small = (conf.get("uploadmax") or 1000) < 50
        prof = PROFILE
        if small:
            # requests that open and close a session within one handler (monolithic POST, mount, manifest PUT)
            # race with the asynchronously started count prune: keep them out of the histories with a small limit
            prof = dict(PROFILE, mono=0, mount=0, image=0, index=0, artifact=0, retag=0, repush=0, negotiate=0)
        w = gen.World(rng, conf, profile=prof)
        target = steps
        while len(w.steps) < target:
            w.run(len(w.steps) + rng.randrange(3, 12))
            r = rng.random()
            repo = w.repo()
            if small:
                # open a few sessions beyond the limit, then let the count prune run
                for _ in range(rng.randrange(1, 5)):
                    k = w.add(upload_post(repo))
                    if rng.random() < 0.5:
                        w.add(upload_patch(repo, "$SID%d$" % k, None, state_token(0), b"abc"))
                w.add(session_count(repo))
            elif r < 0.25:
                for st in expire_sessions(repo):
                    w.add(st)
                w.add(session_count(repo))
            elif r < 0.5:
                w.add(session_count(repo))
            if conf["store"] == "dir" and rng.random() < 0.5:
                w.add(special("snapshot"))
        if not small:
            # content the repository already holds is uploaded again through a session: the session is over after the PUT like any other
            for repo in w.repos:
                if w.blobs[repo]:
                    data = rng.choice(w.blobs[repo])
                    k = w.add(upload_post(repo))
                    sid = "$SID%d$" % k
                    h = len(data) // 2
                    if h and rng.random() < 0.5:
                        w.add(upload_patch(repo, sid, None, state_token(0), data[:h]))
                        w.add(upload_put(repo, sid, None, dg("sha256", data), state_token(h), data[h:]))
                    else:
                        w.add(upload_put(repo, sid, None, dg("sha256", data), state_token(0), data))
                    w.add(upload_get(repo, sid))
                    w.add(upload_patch(repo, sid, None, state_token(len(data)), b"more"))
                    w.add(upload_delete(repo, sid))
                    w.add(session_count(repo))
        if conf["store"] == "dir":
            w.add(special("snapshot"))
        cases.append(dict(id=first + i, conf=conf, steps=w.steps, contents=sorted(w.contents)))
    return cases


def timer_cases(ctx, first):
    """expiry by the real timer: a session opened after the repository's session set was drained (by a completion, a
    cancellation, an expiry) or alongside other sessions is gone once the grace period has passed, with its temporary file"""
    rng = ctx.rng
    n = 16 if ctx.tier == "quick" else 300
    cases = []
    for i in range(n):
        store = ("dir", "mem")[i % 2]
        grace = rng.choice([150, 200, 300])
        conf = mkconf(store=store, grace_ms=grace)
        steps, watched = [], []
        repo = rng.choice(["a", "a/b"])
        for rnd in range(rng.randrange(1, 4)):
            how = rng.choice(["cancel", "complete", "mono", "expire", "none", "cancel", "complete"])
            data = b"drain-%d-%d" % (i, rnd)
            if how == "cancel":
                steps.append(upload_post(repo))
                steps.append(upload_delete(repo, "$SID%d$" % (len(steps) - 1)))
            elif how == "complete":
                steps.append(upload_post(repo))
                steps.append(upload_put(repo, "$SID%d$" % (len(steps) - 1), None, dg("sha256", data), state_token(0), data))
            elif how == "mono":
                steps.append(upload_post(repo, digest=dg("sha256", data), body=data))
            elif how == "expire":
                steps.append(upload_post(repo))
                steps.append(special("sleep", secs=grace * 4 / 1000.0))
            # the session under watch: opened now, possibly written to, then abandoned
            steps.append(upload_post(repo))
            k = len(steps) - 1
            if rng.random() < 0.6:
                steps.append(upload_patch(repo, "$SID%d$" % k, None, state_token(0), b"abandoned"))
            watched.append(k)
            if rng.random() < 0.5:
                steps.append(special("sleep", secs=grace * 4 / 1000.0))
                steps.append(dict(upload_get(repo, "$SID%d$" % k), expired=k))
        steps.append(special("sleep", secs=grace * 5 / 1000.0))
        for k in watched:
            steps.append(dict(upload_get(repo, "$SID%d$" % k), expired=k))
        if store == "dir":
            steps.append(dict(special("snapshot"), final=True))
        for st in steps:
            st["model"] = "(skip)"
        cases.append(dict(id=first + i, conf=conf, steps=steps, grace=grace))
    return cases


def timer_check(ctx):
    cases = timer_cases(ctx, 900000)
    iouts = run_api(ctx, api_binary(ctx), cases, name="timer", workers=16)
    nbad = 0
    for c in cases:
        io = iouts[c["id"]]
        for k, (st, r) in enumerate(zip(c["steps"], io["steps"])):
            if "expired" in st and (r.get("status") is None or 200 <= r.get("status") < 300):
                ctx.violation("an abandoned upload session still answers %s more than %d ms after its last use with a grace period of %d ms: it never expires"
                              % (r.get("status"), 4 * c["grace"], c["grace"]), oracles.hist(c, k, r), "C08:never-expires")
                nbad += 1
                break
            if st.get("final"):
                left = [f["path"] for f in r.get("files") or [] if "/_uploads/" in f["path"] and not f.get("dir")]
                if left:
                    ctx.violation("temporary upload file(s) %s remain after every session has expired" % left[:3], oracles.hist(c, k, None), "C08:expired-file-left")
                    nbad += 1
    return len(cases), nbad


def run(ctx):
    res = {}

    def extra(cases, iouts):
        res["timer"] = timer_check(ctx)

    run_main(ctx, extra)
    if res:
        ctx.coverage["real_timer_expiry_cases"], ctx.coverage["real_timer_expiry_failures"] = res["timer"]


def run_main(ctx, extra):
    apicheck.run(ctx, "C08", make_cases, oracles.c08, extra=extra,
                 assumptions=["in the differential histories expiry and eviction are driven through synchronous hooks of the real prune routines (cache.pruneAge / pruneCount); expiry by the real timer is exercised by separate wall-clock scenarios (grace periods of 150-300 ms, judged after 4-5 grace periods)",
                              "a request body is delivered whole: a client aborting mid-body is not modelled"])
