"""C08 - upload sessions are strictly sequential, isolated and leave no residue.
Theorems: coq/Props_C08.v.  Tie: differential histories over interleaved sessions with correct, stale,
future and malformed offsets/state tokens, ids used against other repositories, cancel, expiry
(synchronous age prune) and eviction (synchronous count prune) + the direct oracle."""
import apicheck
import oracles
from api import *
import gen

LEVEL = "proof"
PROFILE = dict(blob=3, chunked=8, mount=1.5, image=0.5, index=0.1, artifact=0.1, mread=0.2, bread=1, tags=0.1, refs=0.1,
               mdel=0.1, bdel=0.3, sess=6, bad=3.0)


def make_cases(ctx, first):
    n, steps = (400, 50) if ctx.tier == "quick" else (12000, 70)
    confs = [mkconf(store="mem"), mkconf(store="dir"), mkconf(store="dir", uploadmax=3), mkconf(store="mem", uploadmax=2),
             mkconf(store="dir", uploadmax=1), mkconf(store="mem", uploadmax=10)]
    cases = []
    rng = ctx.rng
    for i in range(n):
        conf = confs[i % len(confs)]
        small = (conf.get("uploadmax") or 1000) < 50
        prof = PROFILE
        if small:
            # requests that open and close a session within one handler (monolithic POST, mount, manifest PUT)
            # race with the asynchronously started count prune: keep them out of the histories with a small limit
            prof = dict(PROFILE, mono=0, mount=0, image=0, index=0, artifact=0)
        w = gen.World(rng, conf, profile=prof)
        target = steps
        while len(w.steps) < target:
            w.run(len(w.steps) + rng.randrange(3, 12))
            r = rng.random()
            repo = w.repo()
            if small:
                # open a few sessions beyond the limit, then let the count prune run
                for _ in range(rng.randrange(1, 5)):
                    k = w.add(upload_post(repo))
                    if rng.random() < 0.5:
                        w.add(upload_patch(repo, "$SID%d$" % k, None, state_token(0), b"abc"))
                w.add(session_count(repo))
            elif r < 0.25:
                for st in expire_sessions(repo):
                    w.add(st)
                w.add(session_count(repo))
            elif r < 0.5:
                w.add(session_count(repo))
            if conf["store"] == "dir" and rng.random() < 0.5:
                w.add(special("snapshot"))
        if conf["store"] == "dir":
            w.add(special("snapshot"))
        cases.append(dict(id=first + i, conf=conf, steps=w.steps, contents=sorted(w.contents)))
    return cases


def run(ctx):
    apicheck.run(ctx, "C08", make_cases, oracles.c08,
                 assumptions=["expiry and eviction are driven through synchronous hooks of the real prune routines (cache.pruneAge / pruneCount); that the runtime fires the timer / schedules the spawned goroutine is not modelled",
                              "a request body is delivered whole: a client aborting mid-body is not modelled"])
