"""C15 - any request gets a well-formed answer: no panic, no 5xx for client errors, only repository
names of the OCI grammar are routed, error bodies are OCI error documents with the registered code.
Theorems: coq/Props_C15.v over Route.v and the tables REGENERATED from the source by harness/gofacts.
Tie: the translator itself (routing chain, error table, literals) + differential runs: a malformed request
stream on populated registries (model = Server.serve end to end), and the source's regular expressions
against the model's recognisers on every string up to a length bound."""
import itertools
import json
import subprocess
import urllib.parse

import apicheck
from api import *
import gen
import oracles

LEVEL = "proof"
REGISTERED = {"BLOB_UNKNOWN", "BLOB_UPLOAD_INVALID", "BLOB_UPLOAD_UNKNOWN", "DIGEST_INVALID", "MANIFEST_BLOB_UNKNOWN",
              "MANIFEST_INVALID", "MANIFEST_UNKNOWN", "NAME_INVALID", "NAME_UNKNOWN", "SIZE_INVALID", "UNAUTHORIZED",
              "DENIED", "UNSUPPORTED", "TOOMANYREQUESTS"}
METHODS = ["GET", "HEAD", "POST", "PUT", "PATCH", "DELETE", "OPTIONS", "FOO"]
D0 = "sha256:" + "0" * 64


def raw(method, path, query="", headers=None, body=b"", unknown=False, model=True):
    impl = dict(op="http", method=method, path=path, query=query, headers=headers or {}, b64=b64(body), unknown=unknown)
    st = dict(kind="raw", impl=impl, body=body, method=method, path=path)
    st["model"] = raw_model(impl) if model else "(skip)"
    return st


def weird_requests(rng, w, n):
    """the malformed stream: paths with dot segments / doubled slashes / wrong prefixes / names outside the
    grammar, numeric parameters at and beyond their bounds, malformed digests, ranges, state tokens and JSON"""
    repos = w.repos + ["never/used"]
    names_bad = ["A", "a__b_", "a___b", "-a", "a-", "a..b", "a//b", "a/.b", "_a", "a_", "a.-b", "a b", "a%41", "é", ".", "a/", "a._b"]
    names_ok = ["a__b", "a--b", "a.b", "a_b", "0", "a/b/c", "blobs", "a/blobs", "index.json", "a/manifests", "tags", "v2"]
    digs = [D0, "sha256:abc", "sha512:" + "0" * 128, "sha384:" + "0" * 96, "md5:" + "0" * 32, "sha256:" + "G" * 64, "uploads", ""]
    known = [dg("sha256", b) for r in w.repos for b in w.blobs[r][:3]] + [dg("sha256", b) for r in w.repos for b, _ in w.manifests[r][:3]]
    subs = [s for r in w.repos for s in sorted(w.subjects[r])[:2]]
    sids = ["$SID%d$" % s["k"] for s in w.sessions[:3]] if w.sessions else []
    nums = ["0", "1", "-1", "2", "9223372036854775807", "9223372036854775808", "-9223372036854775809", "1e3", "0x10", " 1", "", "x", "1.0", "+2", "00"]
    out = []
    for _ in range(n):
        r = rng.choice(repos + names_ok + names_bad) if rng.random() < 0.5 else rng.choice(repos)
        m = rng.choice(METHODS)
        k = rng.randrange(12)
        hdr = {}
        q = []
        body = b""
        model = True
        if k == 0:
            path = rng.choice(["/", "", "/v2", "/v2/", "/v2//", "/v1/", "/v2/../v2/", "/v2/./", "//v2", "/V2/", "/v2/%s" % r, "/v2/%s/" % r])
        elif k == 1:
            path = "/v2/%s/tags/list" % r
            q = [("n", rng.choice(nums)), ("last", rng.choice(["", "a", "t1", "zzzz", "ÿ", "T"]))]
            if rng.random() < 0.3:
                q = q[:1] if rng.random() < 0.5 else q[1:]
        elif k == 2:
            path = "/v2/%s/manifests/%s" % (r, rng.choice(gen.TAGS + digs + known + ["a" * 128, "a" * 129, "-x", "x!"]))
            hdr = rng.choice([{}, {"Accept": [MT_OCI_M]}, {"Accept": ["*/*, " + MT_OCI_I]}, {"Accept": [""]}, {"Accept": [", ,", MT_DOCK_M]}])
            if m == "PUT":
                body = rng.choice([b"", b"{}", b"[", b"null", b'{"schemaVersion":2}', b'{"config":{}}', b'{"manifests":[{}]}',
                                   b'{"mediaType":"%s","manifests":[]}' % MT_OCI_I.encode(), b'{"mediaType":1}', b"\xff\xfe"])
                hdr = rng.choice([{}, {"Content-Type": [MT_OCI_M]}, {"Content-Type": [MT_OCI_I + ";x=y"]}, {"Content-Type": ["text/plain"]},
                                  {"Content-Type": [";"]}])
                if rng.random() < 0.3:
                    q = [("digest", rng.choice(digs))]
        elif k == 3:
            path = "/v2/%s/blobs/%s" % (r, rng.choice(digs + known))
            if rng.random() < 0.3 and m in ("GET", "HEAD"):
                hdr = {"Range": [rng.choice(["bytes=0-0", "bytes=5-2", "bytes=-1", "bytes=0-", "bytes=1-2,4-5", "chars=0-1", "bytes=99999-"])]}
                model = False      # range evaluation is net/http.ServeContent's
        elif k == 4:
            path = "/v2/%s/blobs/uploads/" % r
            q = [(a, b) for a, b in [("digest", rng.choice(digs + [None, None])), ("mount", rng.choice(digs + known + [None, None])),
                                     ("from", rng.choice(repos + names_bad + ["../x", None])),
                                     ("digest-algorithm", rng.choice([None, None, "sha256", "sha512", "md5", "", "SHA256"]))] if b is not None]
            body = rng.choice([b"", b"x"])
        elif k in (5, 6):
            sid = rng.choice(sids + ["nosuch", "a/b", "..", "%2e%2e"])
            path = "/v2/%s/blobs/uploads/%s" % (r, sid)
            q = [(a, b) for a, b in [("state", rng.choice([None, "", "!!", state_token(0), state_token(-1), state_token(2 ** 62), raw_token("{}"), raw_token("null"),
                                                           raw_token('{"offset":1e2}'), raw_token('{"offset":"1"}')])),
                                     ("digest", rng.choice([None] + digs))] if b is not None]
            hdr = rng.choice([{}, {"Content-Range": ["0-0"]}, {"Content-Range": ["-1-0"]}, {"Content-Range": ["x"]}, {"Content-Range": ["9223372036854775808-1"]},
                              {"Content-Range": ["0"]}, {"Content-Range": ["--"]}])
            body = rng.choice([b"", b"abc"])
        elif k == 7:
            # referrers with paging parameters: first warm the page cache, then ask for pages at and beyond the bounds
            rr = rng.choice(w.repos) if subs and rng.random() < 0.7 else r
            sj = rng.choice(subs) if subs and rng.random() < 0.8 else rng.choice(digs + ["tag"])
            path = "/v2/%s/referrers/%s" % (rr, sj)
            at = rng.choice([None, None, "", gen.ATYPES[0], "x"])
            base = [("artifactType", at)] if at is not None else []
            out.append(raw("GET", path, urllib.parse.urlencode(base), {}, b"", model=True))
            for _ in range(rng.randrange(1, 4)):
                q2 = base + [(a, b) for a, b in [("page", rng.choice(nums)), ("cache", rng.choice([None, None] + digs + subs))] if b is not None]
                out.append(raw(rng.choice(["GET", "GET", "HEAD"]), path, urllib.parse.urlencode(q2), {}, b"", model=False))
            # pages of exactly the response that is current (cache=<digest of the listing>): at, below and beyond the last page
            out.append(dict(kind="refpages", model="(skip)", method="GET", path=path,
                            impl=dict(op="refpages", path=path, query=urllib.parse.urlencode(base), names=["1", "0", "2", "3", "17"])))
            q = base + [("page", rng.choice(nums))]
            model = False      # paging of referrers responses is checked by C07
        elif k == 8:
            path = "/v2/%s/%s/%s" % (r, rng.choice(["manifest", "blob", "tags", "referrer", "uploads", "Manifests"]), rng.choice(["x", "list", D0]))
        elif k == 9:
            path = "/v2/%s/tags/list/%s" % (r, rng.choice(["extra", "", "."]))
        elif k == 10:
            path = "/v2/%s/../%s/tags/list" % (r, rng.choice(repos))
        else:
            path = rng.choice(["/v2/%s/blobs/uploads" % r, "/v2/%s/blobs/uploads/x/y" % r, "/v2/%s/manifests" % r, "/v2/%s/manifests/" % r,
                               "/v2/%s/blobs/" % r, "/v2/%s//manifests/t1" % r, "/v2/./%s/manifests/t1" % r])
        out.append(raw(m, path, urllib.parse.urlencode(q), hdr, body, unknown=rng.random() < 0.2, model=model))
    return out


# the error codes that make sense per kind of request (OCI distribution specification, error codes table): a code that is
# registered but speaks of something the request is not about is the wrong code
CODES = dict(
    mput={"MANIFEST_INVALID", "MANIFEST_BLOB_UNKNOWN", "DIGEST_INVALID", "NAME_INVALID", "NAME_UNKNOWN", "SIZE_INVALID", "DENIED", "UNSUPPORTED", "UNAUTHORIZED", "TOOMANYREQUESTS"},
    mget={"MANIFEST_UNKNOWN", "MANIFEST_BLOB_UNKNOWN", "NAME_UNKNOWN", "NAME_INVALID", "DIGEST_INVALID", "MANIFEST_INVALID", "DENIED", "UNSUPPORTED", "UNAUTHORIZED", "TOOMANYREQUESTS"},
    mdel={"MANIFEST_UNKNOWN", "MANIFEST_BLOB_UNKNOWN", "NAME_UNKNOWN", "NAME_INVALID", "DIGEST_INVALID", "MANIFEST_INVALID", "DENIED", "UNSUPPORTED", "UNAUTHORIZED", "TOOMANYREQUESTS"},
    blobget={"BLOB_UNKNOWN", "NAME_UNKNOWN", "NAME_INVALID", "DIGEST_INVALID", "DENIED", "UNSUPPORTED", "UNAUTHORIZED", "TOOMANYREQUESTS"},
    blobdel={"BLOB_UNKNOWN", "NAME_UNKNOWN", "NAME_INVALID", "DIGEST_INVALID", "DENIED", "UNSUPPORTED", "UNAUTHORIZED", "TOOMANYREQUESTS"},
    tags={"NAME_UNKNOWN", "NAME_INVALID", "DENIED", "UNSUPPORTED", "UNAUTHORIZED", "TOOMANYREQUESTS"})
for _k in ("upost", "upatch", "uput", "uget", "udel"):
    CODES[_k] = {"BLOB_UPLOAD_INVALID", "BLOB_UPLOAD_UNKNOWN", "DIGEST_INVALID", "SIZE_INVALID", "BLOB_UNKNOWN", "NAME_INVALID", "NAME_UNKNOWN", "DENIED", "UNSUPPORTED", "UNAUTHORIZED", "TOOMANYREQUESTS"}


def oracle(ctx, case, io):
    for k, (st, res) in enumerate(zip(case["steps"], io["steps"])):
        if st["kind"] == "refpages" and not res.get("panic"):
            for j, sub in enumerate((res.get("par") or [[]])[0]):
                what = "GET %s?%s" % (st["path"], "listing" if j == 0 else "cache=<its digest>&page=%s" % st["impl"]["names"][j - 1])
                if sub.get("panic"):
                    ctx.violation("handler panicked on %s: %s" % (what, sub["panic"]), oracles.hist(case, k, res), "C15:panic")
                elif sub["status"] >= 500:
                    ctx.violation("request answered %s while storage is healthy (%s)" % (sub["status"], what), oracles.hist(case, k, res), "C15:5xx")
            continue
        if res.get("panic") or st["impl"].get("op") not in ("http", None, ""):
            continue
        status = res["status"]
        hist = lambda: oracles.hist(case, k, res)
        if status >= 500:
            sig = "C15:5xx-session-ended-mid-body" if st["kind"] == "split" else "C15:5xx"
            if any(len(x) > 255 for x in (st["impl"].get("path") or "").split("/")) and case["conf"].get("store") == "dir":
                sig = "C15:5xx-name-too-long"      # (a name the grammar admits but the file system cannot hold: finding F59)
            ctx.violation("request answered %s while storage is healthy (%s %s)" % (status, st["impl"].get("method"), st["impl"].get("path")), hist(), sig)
        if status < 100 or status > 599:
            ctx.violation("invalid status %s" % status, hist(), "C15:status")
        body = oracles.body_of(res)
        if status >= 400 and body:
            try:
                j = json.loads(body.decode("utf-8"))
                errs = j["errors"]
                assert isinstance(errs, list) and errs
                for e in errs:
                    assert set(e.keys()) <= {"code", "message", "detail"} and isinstance(e["code"], str) and isinstance(e["message"], str)
            except Exception:
                sig = "C15:error-document"
                if status == 416 and st["impl"].get("method") in ("GET", "HEAD") and "Range" in (st["impl"].get("headers") or {}) and body.startswith(b"invalid range"):
                    sig = "C15:range-416-plain-body"
                ctx.violation("error response (%s) carries a body that is not an OCI error document: %r" % (status, body[:120]), hist(), sig)
                continue
            for e in errs:
                if e["code"] not in REGISTERED:
                    ctx.violation("error code %r is not a registered OCI error code" % e["code"], hist(), "C15:error-code")
                elif st["kind"] in CODES and e["code"] not in CODES[st["kind"]]:
                    ctx.violation("error code %s in the answer to a %s request (%s %s): that code speaks of something else" % (e["code"], st["kind"], st["impl"].get("method"), st["impl"].get("path")),
                                  hist(), "C15:error-code-wrong-kind")
                if e["message"] in REGISTERED or not e["message"]:
                    ctx.violation("error message %r is not a human message" % e["message"], hist(), "C15:error-message")
        if st["kind"] == "raw":
            # a path whose repository part is outside the grammar never reaches a handler
            els = [e for e in st["path"].split("/")]
            m = re.match(r"^/v2/(.+)/(manifests|blobs|referrers)/[^/]+$|^/v2/(.+)/tags/list$|^/v2/(.+)/blobs/uploads/[^/]*$", st["path"])
            if m and "/./" not in st["path"] and "/../" not in st["path"] and "//" not in st["path"]:
                name = m.group(1) or m.group(3) or m.group(4)
                alt = None
                if m.group(1) and m.group(2) == "blobs" and name.endswith("/blobs") is False:
                    pass
                if not REPO_RE.match(name):
                    # .../<name>/blobs/uploads/<x> also parses as repository <name>/blobs + uploads/<x>: no handler either way
                    if status not in (404, 405) or body:
                        ctx.violation("repository name %r outside the grammar was routed (%s)" % (name, status), hist(), "C15:grammar-routed")


def grammar_differential(ctx, binp, maxlen):
    """rePath / RefTagRE of the source against Route.repo_ok / Index.is_tag on every string over a small alphabet"""
    alpha = "a0._-/A"
    names = [""]
    for n in range(1, maxlen + 1):
        names += ["".join(t) for t in itertools.product(alpha, repeat=n)]
    names += ["a" * 127 + "b", "a" * 128, "a" * 129, "_x", "x\n", "a__b", "a___b", "a----b", "a_-b", "0/0/0"]
    case = dict(id=1, conf=mkconf(), steps=[dict(impl=dict(op="regex", files=[dict(path=x) for x in names]))])
    out = run_api(ctx, binp, [case], "regex")[1]["steps"][0]["names"]
    binm = ensure_model()
    inp = "\n".join(sl("repo", sx(x)) + "\n" + sl("tag", sx(x)) for x in names) + "\n"
    p = subprocess.run([binm, "probe"], input=inp, stdout=subprocess.PIPE, stderr=subprocess.PIPE, text=True, timeout=600)
    if p.returncode != 0:
        raise BuildError("modelrun probe failed: " + p.stderr[-1000:])
    lines = p.stdout.split("\n")
    bad = []
    for i, x in enumerate(names):
        mr, mt = lines[2 * i] == "true", lines[2 * i + 1] == "true"
        ir, it = out[i][0] == "1", out[i][1] == "1"
        pr = REPO_RE.match(x) is not None and "\n" not in x
        if mr != ir or mt != it:
            bad.append((x, dict(model_repo=mr, impl_repo=ir, model_tag=mt, impl_tag=it)))
        elif ir != pr:
            bad.append((x, dict(impl_repo=ir, oci_grammar=pr)))
    for x, d in bad[:3]:
        if "oci_grammar" in d:
            ctx.violation("the source's repository regexp %s %r, the OCI grammar does not" % ("accepts" if d["impl_repo"] else "refuses", x),
                          dict(name=x, detail=d), "C15:grammar-regexp")
        else:
            ctx.violation("correspondence: recognisers of coq/Route.v / Index.v and the source's regular expressions disagree on %r (%d strings in total)" % (x, len(bad)),
                          dict(name=x, detail=d, note="correspondence Route.repo_ok / Index.is_tag vs rePath / RefTagRE"), "C15:corr-grammar",
                          nofail=not ctx.violations)
    return len(names), len(bad)


def make_cases(ctx, first):
    n, steps, nweird = (160, 25, 60) if ctx.tier == "quick" else (4000, 40, 120)
    confs = [mkconf(store="mem"), mkconf(store="dir"), mkconf(store="mem", rlimit=700), mkconf(store="dir", push=False),
             mkconf(store="mem", delete=False), mkconf(store="dir", blobdelete=False), mkconf(store="mem", referrer=False),
             mkconf(store="dir", ro=True)]
    cases = []
    for i in range(n):
        conf = confs[i % len(confs)]
        # an upload interrupted mid-body needs the body to be read: not when the request is refused by routing
        inter = 0.15 if (conf["push"] and not conf["ro"]) else 0
        w = gen.World(ctx.rng, conf, repos=["a", "a/b"], profile=dict(artifact=3, sess=3, mount=2, bad=0.5, interrupt=inter))
        if i % 5 != 4:
            w.run(steps)
        if i % 4 == 1:
            # every kind of manifest that was pushed is deleted by digest (artifacts of both kinds, with and without artifactType)
            for r_ in w.repos:
                sd_ = desc(MT_OCI_M, b"subject-that-may-not-exist")
                for at_, cfg_mt in ((None, None), ("application/vnd.example.sbom", None), (None, MT_EMPTY), ("application/vnd.example.sig", MT_CFG)):
                    if cfg_mt is None:
                        b_ = index_manifest([], subject=sd_, artifact_type=at_, annotations={"c15": str(len(w.steps))})
                        mt_ = MT_OCI_I
                    else:
                        w.ensure_blob(r_, b"{}")
                        b_ = image_manifest(desc(cfg_mt, b"{}"), [], subject=sd_, artifact_type=at_, annotations={"c15": str(len(w.steps))})
                        mt_ = MT_OCI_M
                    w.contents.add(b_)
                    w.add(manifest_put(r_, dg("sha256", b_), b_, ctype=mt_))
                    w.manifests[r_].append((b_, mt_))
            for r_ in w.repos:
                for b_, _mt in w.manifests[r_][-5:]:
                    w.add(manifest_delete(r_, dg("sha256", b_)))
        if i % 3 != 2:
            # manifests whose descriptors carry digests that are not digests (no separator, no algorithm, no hex, empty, missing)
            for r_ in w.repos:
                for _ in range(2):
                    bad_d = ctx.rng.choice(["", "nocolon", "sha256", ":abc", "sha256:", "sha256-" + "0" * 64, "0" * 64, "latest", "sha256:" + "0" * 63, None])
                    dd = {"mediaType": MT_CFG, "size": 2}
                    if bad_d is not None:
                        dd["digest"] = bad_d
                    good = desc(MT_CFG, b"{}")
                    w.ensure_blob(r_, b"{}")
                    shape = ctx.rng.randrange(3)
                    if shape == 0:
                        b_ = jdump({"schemaVersion": 2, "mediaType": MT_OCI_M, "config": dd, "layers": []})
                        mt_ = MT_OCI_M
                    elif shape == 1:
                        b_ = jdump({"schemaVersion": 2, "mediaType": MT_OCI_M, "config": good, "layers": [dict(dd, mediaType=MT_LAYER)]})
                        mt_ = MT_OCI_M
                    else:
                        b_ = jdump({"schemaVersion": 2, "mediaType": MT_OCI_I, "manifests": [dict(dd, mediaType=MT_OCI_M)]})
                        mt_ = MT_OCI_I
                    w.contents.add(b_)
                    w.add(manifest_put(r_, ctx.rng.choice(["t1", dg("sha256", b_)]), b_, ctype=mt_))
        if i % 8 == 1:
            # a name the grammar admits and the file system cannot hold (a component longer than 255 bytes)
            big = "a" * 256
            # (the model has no file system: these are judged by the oracle only)
            w.add(raw("POST", "/v2/%s/blobs/uploads/" % big, model=False))
            w.add(raw("GET", "/v2/%s/tags/list" % big, model=False))
            w.add(raw("PUT", "/v2/x/%s/manifests/t1" % big, headers={"Content-Type": [MT_OCI_I]}, body=b'{"schemaVersion":2,"mediaType":"%s","manifests":[]}' % MT_OCI_I.encode(), model=False))
        if conf["push"] and not conf["ro"] and i % 2 == 1:
            # state tokens that decode to JSON values other than an object, on sessions that exist (empty, and with content)
            for tok in ("null", "[]", "0", "true", '"x"', "{}", '{"offset":null}', '{"offset":[1]}'):
                r_ = w.repo()
                ks_ = w.add(upload_post(r_))
                sid_ = "$SID%d$" % ks_
                if ctx.rng.random() < 0.5:
                    w.add(upload_patch(r_, sid_, None, state_token(0), b"abc"))
                if ctx.rng.random() < 0.5:
                    w.add(raw("PATCH", "/v2/%s/blobs/uploads/%s" % (r_, sid_), "state=" + raw_token(tok), {}, b"xyz", model=False))
                else:
                    w.add(raw("PUT", "/v2/%s/blobs/uploads/%s" % (r_, sid_), "state=" + raw_token(tok) + "&digest=" + urllib.parse.quote(dg("sha256", b"xyz")), {}, b"xyz", model=False))
                w.add(dict(upload_get(r_, sid_), model="(skip)"))       # (the model did not see the request above)
        if i % 4 == 2:
            # a manifest beyond the size limit whose length is not announced
            r_ = w.repo()
            big_ = image_manifest(desc(MT_CFG, b"{}"), [], annotations={"pad": "x" * (conf["mlimit"] + 10)})
            for unk_ in (True, False):
                st_ = manifest_put(r_, "big", big_, ctype=MT_OCI_M, unknown=unk_)
                w.add(st_)
        # a few sessions left open on purpose
        for _ in range(2):
            k = w.add(upload_post(w.repo()))
            w.sessions.append(dict(k=k))
        for st in weird_requests(ctx.rng, w, nweird):
            w.add(st)
        if i % 3 == 0:
            w.probe()
        if conf.get("rlimit", 1 << 30) < 100000:
            # (with a small response limit a listing is cut into pages: the model lists the whole, paging is C07's; the oracle still judges the answer)
            for s_ in w.steps:
                if s_["kind"] == "refs":
                    s_["model"] = "(skip)"
        cases.append(dict(id=first + i, conf=conf, steps=w.steps, contents=sorted(w.contents)))
    return cases


def run(ctx):
    cases, iouts = apicheck.run(ctx, "C15", make_cases, oracle,
                                assumptions=["panics inside unmodelled library code are covered only by the malformed stream under recover()",
                                             "Range header evaluation is net/http.ServeContent's; such requests are checked by the oracle only"])
    binp = api_binary(ctx)
    nn, nb = grammar_differential(ctx, binp, 5 if ctx.tier == "quick" else 7)
    ctx.coverage["grammar_strings_compared"] = nn
    ctx.coverage["grammar_mismatches"] = nb
