#!/bin/sh
# MANIFEST.setup_cmd: build the framework offline from files on disk only.
set -e
cd "$(dirname "$0")"
export GOFLAGS=-mod=mod GOPROXY=off GOSUMDB=off GOTOOLCHAIN=local
# no escape hatches anywhere in the development
if grep -rnE '(^|[^A-Za-z_])(Admitted|admit|Axiom|Parameter|Conjecture|Admit Obligations)([^A-Za-z_]|$)|Unset Guard|bypass_check|type-in-type|impredicative-set' $(ls coq/*.v | grep -v '/Gen_') ; then
  echo "forbidden construct in the Coq development" >&2; exit 1
fi
# fact translator: regenerate coq/Gen_*.v from /repo's current source
(cd harness/gofacts && go build -o ../../bin/gofacts .)
bin/gofacts "${VERIF_REPO:-/repo}" coq
cd coq
coq_makefile -f _CoqProject -o Makefile >/dev/null
timeout 3000 make -j16
cd ..
harness/ocaml/build.sh
echo "setup ok"
